"""Generators of 3D structures: corpus structures, rigid motions, jitter, thinning,
mini-structures of neighbouring residues with independent rigid perturbations.
Everything random is drawn by Hypothesis; this module only applies the drawn values."""

from __future__ import annotations

import functools
import itertools
import math

import numpy as np

from rnaverif import corpus, geomref


def quat_rot(q):
    w, x, y, z = q
    n = math.sqrt(w * w + x * x + y * y + z * z)
    w, x, y, z = w / n, x / n, y / n, z / n
    return np.array([
        [1 - 2 * (y * y + z * z), 2 * (x * y - z * w), 2 * (x * z + y * w)],
        [2 * (x * y + z * w), 1 - 2 * (x * x + z * z), 2 * (y * z - x * w)],
        [2 * (x * z - y * w), 2 * (y * z + x * w), 1 - 2 * (x * x + y * y)],
    ])


def axis_rotations():
    """the 24 proper signed axis permutations (exact in floating point)"""
    out = []
    for perm in itertools.permutations(range(3)):
        for signs in itertools.product((1.0, -1.0), repeat=3):
            m = np.zeros((3, 3))
            for r, (c, s) in enumerate(zip(perm, signs)):
                m[r, c] = s
            if round(float(np.linalg.det(m))) == 1:
                out.append(m)
    return out


AXIS_ROTATIONS = axis_rotations()


def small_rotation(axis, angle_deg):
    ax = np.array(axis, dtype=float)
    n = float(np.linalg.norm(ax))
    if n < 1e-9:
        return np.eye(3)
    ax = ax / n
    a = math.radians(angle_deg)
    K = np.array([[0, -ax[2], ax[1]], [ax[2], 0, -ax[0]], [-ax[1], ax[0], 0]])
    return np.eye(3) + math.sin(a) * K + (1 - math.cos(a)) * (K @ K)


def rebuild(s3, *, point_fn=None, residue_fn=None, keep=None, atom_keep=None, atom_order=None,
            chain_map=None, number_fn=None, round_to=None, model=None, ident_fn=None):
    """new Structure3D from `s3`.

    point_fn(xyz ndarray, residue_index, atom_index) -> xyz   (rigid motion, jitter)
    keep: set of residue indices to keep (None = all)
    atom_keep(residue_index, atom_index) -> bool
    atom_order(residue_index, n_atoms) -> permutation list
    chain_map: dict old chain -> new chain; number_fn(chain, number) -> new number
    """
    from rnapolis.common import ResidueAuth, ResidueLabel
    from rnapolis.tertiary import Atom, Residue3D, Structure3D

    residues = []
    for ri, r in enumerate(s3.residues):
        if keep is not None and ri not in keep:
            continue

        def ren_label(lab):
            if lab is None:
                return None
            ch = chain_map.get(lab.chain, lab.chain) if chain_map else lab.chain
            num = number_fn(lab.chain, lab.number) if number_fn else lab.number
            return ResidueLabel(ch, num, lab.name)

        def ren_auth(au):
            if au is None:
                return None
            ch = chain_map.get(au.chain, au.chain) if chain_map else au.chain
            num = number_fn(au.chain, au.number) if number_fn else au.number
            return ResidueAuth(ch, num, au.icode, au.name)

        label, auth = ren_label(r.label), ren_auth(r.auth)
        if ident_fn is not None:
            new = ident_fn(ri, r.chain, r.number)
            ch, num = new[0], new[1]
            label = ResidueLabel(ch, num, r.label.name) if r.label is not None else None
            if len(new) == 3:
                # (chain, number, insertion code): only the author identity can carry the code, and label numbers
                # (label_seq_id) are unique per residue in real files, so the rebuilt residue is PDB-like: author
                # identity only
                nm = r.auth.name if r.auth is not None else r.label.name
                auth = ResidueAuth(ch, num, new[2], nm)
                label = None
            else:
                auth = ResidueAuth(ch, num, r.auth.icode, r.auth.name) if r.auth is not None else None
        idxs = list(range(len(r.atoms)))
        if atom_keep is not None:
            idxs = [k for k in idxs if atom_keep(ri, k)]
        if atom_order is not None:
            perm = atom_order(ri, len(idxs))
            idxs = [idxs[p] for p in perm]
        atoms = []
        for k in idxs:
            a = r.atoms[k]
            xyz = np.array([a.x, a.y, a.z], dtype=float)
            if point_fn is not None:
                xyz = point_fn(xyz, ri, k)
            if round_to is not None:
                xyz = np.round(xyz, round_to)
            atoms.append(Atom(a.entity_id, label, auth, a.model if model is None else model, a.name, float(xyz[0]), float(xyz[1]), float(xyz[2]), a.occupancy))
        if not atoms:
            continue
        residues.append(Residue3D(label, auth, r.model if model is None else model, r.one_letter_name, tuple(atoms)))
    return Structure3D(residues)


@functools.lru_cache(maxsize=None)
def neighbour_pairs(fn):
    """residue index pairs of a corpus file whose atoms come within 4.5 A (candidates for any interaction)"""
    s3 = corpus.structure(fn)
    rr = geomref.from_structure3d(s3)
    cand = []
    for i, j in geomref.neighbours(rr, 4.5):
        a = np.array(list(rr[i].atoms.values()))
        b = np.array(list(rr[j].atoms.values()))
        if a.size == 0 or b.size == 0:
            continue
        d = np.min(np.linalg.norm(a[:, None, :] - b[None, :, :], axis=2))
        if d <= 4.5 and rr[i].letter in geomref.R_EDGES and rr[j].letter in geomref.R_EDGES:
            cand.append((i, j))
    return cand


def st_rigid():
    from hypothesis import strategies as st

    q = st.tuples(*[st.floats(-1, 1) for _ in range(4)]).filter(lambda t: sum(x * x for x in t) > 1e-3)
    rot = st.one_of(q.map(lambda t: quat_rot(t)), st.integers(0, 23).map(lambda k: AXIS_ROTATIONS[k]))
    shift = st.one_of(st.just((0.0, 0.0, 0.0)), st.tuples(*[st.floats(-500, 500) for _ in range(3)]))
    return st.tuples(rot, shift.map(lambda t: np.array(t)))


def st_mini(files, max_extra=4):
    """(file, residue indices, per-residue small rigid perturbations)"""
    from hypothesis import strategies as st

    @st.composite
    def build(draw):
        fn = draw(st.sampled_from(files))
        pairs = neighbour_pairs(fn)
        i, j = pairs[draw(st.integers(0, len(pairs) - 1))]
        idx = [i, j]
        extra = draw(st.integers(0, max_extra))
        for _ in range(extra):
            # a further residue that neighbours one already chosen
            cands = [q for p, q in pairs if p in idx and q not in idx] + [p for p, q in pairs if q in idx and p not in idx]
            if not cands:
                break
            idx.append(cands[draw(st.integers(0, len(cands) - 1))])
        idx = sorted(set(idx))
        moves = []
        for _ in idx:
            mode = draw(st.sampled_from(["none", "small", "small", "medium"]))
            if mode == "none":
                moves.append(None)
            else:
                lim_t, lim_a = (0.4, 8.0) if mode == "small" else (1.5, 30.0)
                axis = [draw(st.floats(-1, 1)) for _ in range(3)]
                ang = draw(st.floats(-lim_a, lim_a))
                tr = [draw(st.floats(-lim_t, lim_t)) for _ in range(3)]
                moves.append([axis, ang, tr])
        # targeted thinning: atoms that decide normals, cis/trans, edges or BPh/BR classes may be absent
        drops = []
        for _ in range(draw(st.sampled_from([0, 0, 0, 1, 1, 2]))):
            drops.append([draw(st.integers(0, len(idx) - 1)),
                          draw(st.sampled_from(["C1'", "C1'", "N9", "N1", "N7", "N3", "C4", "O2", "O2'", "C2", "N6", "O6", "N4", "O4", "P", "OP1", "C8", "C6"]))])
        # identities: as in the file, or rewritten so that neighbours share a number and differ by insertion code
        # (20, 20A, 20B as in tRNA numbering), numbers descend in file order, or the chains appear in reverse
        # alphabetical order - shapes the corpus hardly contains
        relabel = draw(st.sampled_from([None, None, None, "icode-runs-2", "icode-runs-3", "descending", "chains-reversed"]))
        # residues reduced to a fragment, as in base-only ligands, coarse models or truncated deposits
        strip = []
        for slot in range(len(idx)):
            how = draw(st.sampled_from([None] * 9 + ["base+C1'", "no-phosphate", "base+sugar-ring"]))
            if how:
                strip.append([slot, how])
        return {"kind": "mini", "file": fn, "residues": idx, "moves": moves, "drop": drops, "relabel": relabel, "strip": strip}

    return build()


def build_mini(case):
    s3 = corpus.structure(case["file"])
    idx = list(case["residues"])
    moves = dict(zip(idx, case["moves"]))
    cents = {}
    for ri in idx:
        r = s3.residues[ri]
        cents[ri] = np.mean(np.array([[a.x, a.y, a.z] for a in r.atoms]), axis=0)
    mats = {ri: (small_rotation(m[0], m[1]), np.array(m[2])) if m else None for ri, m in moves.items()}

    def pf(xyz, ri, k):
        m = mats[ri]
        if m is None:
            return xyz
        R, t = m
        return R @ (xyz - cents[ri]) + cents[ri] + t

    dropped = {}
    for slot, name in case.get("drop", []):
        dropped.setdefault(idx[slot % len(idx)], set()).add(name)

    PHOSPHATE = {"P", "OP1", "OP2", "OP3", "O1P", "O2P", "O3P"}
    SUGAR = {"C1'", "C2'", "C3'", "C4'", "C5'", "O2'", "O3'", "O4'", "O5'"}
    stripped = {idx[slot % len(idx)]: how for slot, how in case.get("strip", [])}

    def ak(ri, k):
        name = s3.residues[ri].atoms[k].name
        if name in dropped.get(ri, ()):
            return False
        how = stripped.get(ri)
        if how == "base+C1'":
            return name == "C1'" or (name not in PHOSPHATE and name not in SUGAR and not name.startswith("H"))
        if how == "no-phosphate":
            return name not in PHOSPHATE
        if how == "base+sugar-ring":
            return name not in PHOSPHATE and name not in ("C5'", "O5'", "O3'", "O2'")
        return True

    return rebuild(s3, keep=set(idx), point_fn=pf, atom_keep=ak if (dropped or stripped) else None, ident_fn=mini_ident_fn(case.get("relabel"), idx))


def mini_ident_fn(relabel, idx):
    if not relabel:
        return None
    slot = {ri: s for s, ri in enumerate(sorted(idx))}
    n = len(idx)

    def fn(ri, chain, number):
        s = slot[ri]
        if relabel.startswith("icode-runs-"):
            r = int(relabel[-1])
            return ("A", 20 + s // r, None if s % r == 0 else chr(ord("A") + s % r - 1))
        if relabel == "descending":
            return ("A", 100 - 3 * s, None)
        if relabel == "chains-reversed":
            half = (n + 1) // 2
            return ("T" if s < half else "P", 1 + s, None)
        raise ValueError(relabel)

    return fn
