"""Generators of 3D structures: corpus structures, rigid motions, jitter, thinning,
mini-structures of neighbouring residues with independent rigid perturbations.
Everything random is drawn by Hypothesis; this module only applies the drawn values."""

from __future__ import annotations

import functools
import itertools
import math

import numpy as np

from rnaverif import corpus, geomref


def quat_rot(q):
    w, x, y, z = q
    n = math.sqrt(w * w + x * x + y * y + z * z)
    w, x, y, z = w / n, x / n, y / n, z / n
    return np.array([
        [1 - 2 * (y * y + z * z), 2 * (x * y - z * w), 2 * (x * z + y * w)],
        [2 * (x * y + z * w), 1 - 2 * (x * x + z * z), 2 * (y * z - x * w)],
        [2 * (x * z - y * w), 2 * (y * z + x * w), 1 - 2 * (x * x + y * y)],
    ])


def axis_rotations():
    """the 24 proper signed axis permutations (exact in floating point)"""
    out = []
    for perm in itertools.permutations(range(3)):
        for signs in itertools.product((1.0, -1.0), repeat=3):
            m = np.zeros((3, 3))
            for r, (c, s) in enumerate(zip(perm, signs)):
                m[r, c] = s
            if round(float(np.linalg.det(m))) == 1:
                out.append(m)
    return out


AXIS_ROTATIONS = axis_rotations()


def small_rotation(axis, angle_deg):
    ax = np.array(axis, dtype=float)
    n = float(np.linalg.norm(ax))
    if n < 1e-9:
        return np.eye(3)
    ax = ax / n
    a = math.radians(angle_deg)
    K = np.array([[0, -ax[2], ax[1]], [ax[2], 0, -ax[0]], [-ax[1], ax[0], 0]])
    return np.eye(3) + math.sin(a) * K + (1 - math.cos(a)) * (K @ K)


def rebuild(s3, *, point_fn=None, residue_fn=None, keep=None, atom_keep=None, atom_order=None,
            chain_map=None, number_fn=None, round_to=None, model=None, ident_fn=None, occupancy_fn=None):
    """new Structure3D from `s3`.

    point_fn(xyz ndarray, residue_index, atom_index) -> xyz   (rigid motion, jitter)
    keep: set of residue indices to keep (None = all)
    atom_keep(residue_index, atom_index) -> bool
    atom_order(residue_index, n_atoms) -> permutation list
    chain_map: dict old chain -> new chain; number_fn(chain, number) -> new number
    """
    from rnapolis.common import ResidueAuth, ResidueLabel
    from rnapolis.tertiary import Atom, Residue3D, Structure3D

    residues = []
    for ri, r in enumerate(s3.residues):
        if keep is not None and ri not in keep:
            continue

        def ren_label(lab):
            if lab is None:
                return None
            ch = chain_map.get(lab.chain, lab.chain) if chain_map else lab.chain
            num = number_fn(lab.chain, lab.number) if number_fn else lab.number
            return ResidueLabel(ch, num, lab.name)

        def ren_auth(au):
            if au is None:
                return None
            ch = chain_map.get(au.chain, au.chain) if chain_map else au.chain
            num = number_fn(au.chain, au.number) if number_fn else au.number
            return ResidueAuth(ch, num, au.icode, au.name)

        label, auth = ren_label(r.label), ren_auth(r.auth)
        if ident_fn is not None:
            new = ident_fn(ri, r.chain, r.number)
            ch, num = new[0], new[1]
            label = ResidueLabel(ch, num, r.label.name) if r.label is not None else None
            if len(new) == 4:
                # (chain, author number, insertion code, label number): both identities, numbered differently, as
                # in mmCIF files whose author numbering starts at 0 or below while label_seq_id counts from 1
                nm = r.auth.name if r.auth is not None else r.label.name
                auth = ResidueAuth(ch, num, new[2], nm)
                label = ResidueLabel(ch, new[3], nm)
            elif len(new) == 3:
                # (chain, number, insertion code): only the author identity can carry the code, and label numbers
                # (label_seq_id) are unique per residue in real files, so the rebuilt residue is PDB-like: author
                # identity only
                nm = r.auth.name if r.auth is not None else r.label.name
                auth = ResidueAuth(ch, num, new[2], nm)
                label = None
            else:
                auth = ResidueAuth(ch, num, r.auth.icode, r.auth.name) if r.auth is not None else None
        idxs = list(range(len(r.atoms)))
        if atom_keep is not None:
            idxs = [k for k in idxs if atom_keep(ri, k)]
        if atom_order is not None:
            perm = atom_order(ri, len(idxs))
            idxs = [idxs[p] for p in perm]
        atoms = []
        for k in idxs:
            a = r.atoms[k]
            xyz = np.array([a.x, a.y, a.z], dtype=float)
            if point_fn is not None:
                xyz = point_fn(xyz, ri, k)
            if round_to is not None:
                xyz = np.round(xyz, round_to)
            occ = a.occupancy if occupancy_fn is None else occupancy_fn(ri, a.name, a.occupancy)
            atoms.append(Atom(a.entity_id, label, auth, a.model if model is None else model, a.name, float(xyz[0]), float(xyz[1]), float(xyz[2]), occ))
        if not atoms:
            continue
        residues.append(Residue3D(label, auth, r.model if model is None else model, r.one_letter_name, tuple(atoms)))
    return Structure3D(residues)


def one_identity(s3, which):
    """the same residues identified the way a reader identifies them when a file carries only one set of identity items:
    'label-only' (mmCIF without auth_asym_id / auth_seq_id: auth is None) or 'auth-only' (PDB-like: label is None).
    Returns the structure unchanged when that would leave a residue without identity or make two residues alike."""
    from rnapolis.tertiary import Atom, Residue3D, Structure3D

    keys = set()
    for r in s3.residues:
        if which == "label-only":
            if r.label is None or (r.auth is not None and r.auth.icode):
                return s3
            keys.add((r.model, r.label.chain, r.label.number))
        else:
            if r.auth is None:
                return s3
            keys.add((r.model, r.auth.chain, r.auth.number, r.auth.icode))
    if len(keys) != len(s3.residues):
        return s3
    out = []
    for r in s3.residues:
        label, auth = (r.label, None) if which == "label-only" else (None, r.auth)
        atoms = tuple(Atom(a.entity_id, label, auth, a.model, a.name, a.x, a.y, a.z, a.occupancy) for a in r.atoms)
        out.append(Residue3D(label, auth, r.model, r.one_letter_name, atoms))
    return Structure3D(out)


@functools.lru_cache(maxsize=None)
def neighbour_pairs(fn):
    """residue index pairs of a corpus file whose atoms come within 4.5 A (candidates for any interaction)"""
    s3 = corpus.structure(fn)
    rr = geomref.from_structure3d(s3)
    cand = []
    for i, j in geomref.neighbours(rr, 4.5):
        a = np.array(list(rr[i].atoms.values()))
        b = np.array(list(rr[j].atoms.values()))
        if a.size == 0 or b.size == 0:
            continue
        d = np.min(np.linalg.norm(a[:, None, :] - b[None, :, :], axis=2))
        if d <= 4.5 and rr[i].letter in geomref.R_EDGES and rr[j].letter in geomref.R_EDGES:
            cand.append((i, j))
    return cand


def st_rigid():
    from hypothesis import strategies as st

    q = st.tuples(*[st.floats(-1, 1) for _ in range(4)]).filter(lambda t: sum(x * x for x in t) > 1e-3)
    rot = st.one_of(q.map(lambda t: quat_rot(t)), st.integers(0, 23).map(lambda k: AXIS_ROTATIONS[k]))
    shift = st.one_of(st.just((0.0, 0.0, 0.0)), st.tuples(*[st.floats(-500, 500) for _ in range(3)]))
    return st.tuples(rot, shift.map(lambda t: np.array(t)))


def st_mini(files, max_extra=4, split=False):
    """(file, residue indices, per-residue small rigid perturbations); split=True may also cut a residue's records
    into two non-adjacent blocks (see split_fragments)"""
    from hypothesis import strategies as st

    @st.composite
    def build(draw):
        fn = draw(st.sampled_from(files))
        pairs = neighbour_pairs(fn)
        i, j = pairs[draw(st.integers(0, len(pairs) - 1))]
        idx = [i, j]
        extra = draw(st.integers(0, max_extra))
        for _ in range(extra):
            # a further residue that neighbours one already chosen
            cands = [q for p, q in pairs if p in idx and q not in idx] + [p for p, q in pairs if q in idx and p not in idx]
            if not cands:
                break
            idx.append(cands[draw(st.integers(0, len(cands) - 1))])
        idx = sorted(set(idx))
        moves = []
        for _ in idx:
            mode = draw(st.sampled_from(["none", "small", "small", "medium"]))
            if mode == "none":
                moves.append(None)
            else:
                lim_t, lim_a = (0.4, 8.0) if mode == "small" else (1.5, 30.0)
                axis = [draw(st.floats(-1, 1)) for _ in range(3)]
                ang = draw(st.floats(-lim_a, lim_a))
                tr = [draw(st.floats(-lim_t, lim_t)) for _ in range(3)]
                moves.append([axis, ang, tr])
        # targeted thinning: atoms that decide normals, cis/trans, edges or BPh/BR classes may be absent
        drops = []
        for _ in range(draw(st.sampled_from([0, 0, 0, 1, 1, 2]))):
            drops.append([draw(st.integers(0, len(idx) - 1)),
                          draw(st.sampled_from(["C1'", "C1'", "N9", "N1", "N7", "N3", "C4", "O2", "O2'", "C2", "N6", "O6", "N4", "O4", "P", "OP1", "C8", "C6"]))])
        # identities: as in the file, or rewritten so that neighbours share a number and differ by insertion code
        # (20, 20A, 20B as in tRNA numbering), numbers descend in file order, or the chains appear in reverse
        # alphabetical order - shapes the corpus hardly contains
        relabel = draw(st.sampled_from([None, None, None, "icode-runs-2", "icode-runs-3", "descending", "chains-reversed", "author-from-zero", "author-from-minus-2",
                                        "chains-B10-B7", "chains-9-10"]))
        # residues reduced to a fragment, as in base-only ligands, coarse models or truncated deposits
        strip = []
        for slot in range(len(idx)):
            how = draw(st.sampled_from([None] * 9 + ["base+C1'", "no-phosphate", "base+sugar-ring"]))
            if how:
                strip.append([slot, how])
        case = {"kind": "mini", "file": fn, "residues": idx, "moves": moves, "drop": drops, "relabel": relabel, "strip": strip}
        if draw(st.integers(0, 3)) == 0:
            # occupancies other than 1.00 (0.00 marks "modelled but not observed", 0.5 a half-occupied conformer, None
            # a file without the column): the geometry of the annotation does not ask for them
            case["occupancy"] = [[draw(st.integers(0, len(idx) - 1)), draw(st.sampled_from(["base", "all", "ring-half", "backbone"])),
                                  draw(st.sampled_from([0.0, 0.0, 0.5, None]))] for _ in range(draw(st.integers(1, 2)))]
        if draw(st.integers(0, 3)) == 0:
            case["reletter"] = {"slots": draw(st.lists(st.integers(0, len(idx) - 1), min_size=1, max_size=len(idx), unique=True)), "c7": draw(st.booleans())}
        if split:
            cuts = []
            for slot in range(len(idx)):
                how = draw(st.sampled_from([None] * 3 + ["base-later", "backbone-later", "sugar-later"]))
                if how:
                    cuts.append([slot, how, draw(st.sampled_from(["end", "next"]))])
            case["split"] = cuts
        return case

    return build()


def build_mini(case):
    s3 = corpus.structure(case["file"])
    idx = list(case["residues"])
    moves = dict(zip(idx, case["moves"]))
    cents = {}
    for ri in idx:
        r = s3.residues[ri]
        cents[ri] = np.mean(np.array([[a.x, a.y, a.z] for a in r.atoms]), axis=0)
    mats = {ri: (small_rotation(m[0], m[1]), np.array(m[2])) if m else None for ri, m in moves.items()}

    def pf(xyz, ri, k):
        m = mats[ri]
        if m is None:
            return xyz
        R, t = m
        return R @ (xyz - cents[ri]) + cents[ri] + t

    dropped = {}
    for slot, name in case.get("drop", []):
        dropped.setdefault(idx[slot % len(idx)], set()).add(name)

    PHOSPHATE = {"P", "OP1", "OP2", "OP3", "O1P", "O2P", "O3P"}
    SUGAR = {"C1'", "C2'", "C3'", "C4'", "C5'", "O2'", "O3'", "O4'", "O5'"}
    stripped = {idx[slot % len(idx)]: how for slot, how in case.get("strip", [])}

    def ak(ri, k):
        name = s3.residues[ri].atoms[k].name
        if name in dropped.get(ri, ()):
            return False
        how = stripped.get(ri)
        if how == "base+C1'":
            return name == "C1'" or (name not in PHOSPHATE and name not in SUGAR and not name.startswith("H"))
        if how == "no-phosphate":
            return name not in PHOSPHATE
        if how == "base+sugar-ring":
            return name not in PHOSPHATE and name not in ("C5'", "O5'", "O3'", "O2'")
        return True

    occ_plan = {}
    for slot, which, value in case.get("occupancy", []):
        occ_plan[idx[slot % len(idx)]] = (which, value)

    def of(ri, name, occ):
        if ri not in occ_plan:
            return occ
        which, value = occ_plan[ri]
        backbone = name in PHOSPHATE or name in SUGAR
        if which == "all" or (which == "base" and not backbone) or (which == "backbone" and backbone) or \
                (which == "ring-half" and name in ("N1", "C2", "N3", "C4")):
            return value
        return occ

    out = rebuild(s3, keep=set(idx), point_fn=pf, atom_keep=ak if (dropped or stripped) else None, ident_fn=mini_ident_fn(case.get("relabel"), idx),
                  occupancy_fn=of if occ_plan else None)
    if case.get("reletter"):
        out = reletter_u_to_t(out, case["reletter"]["slots"], case["reletter"]["c7"])
    if case.get("split"):
        out = split_fragments(out, case["split"])
    return out


def reletter_u_to_t(s3, slots, add_c7=True):
    """uridines at the given positions become thymidines (named DT; with a methyl carbon C7 placed 1.5 A from C5, away
    from the ring centre, or without it - a thinned T): the corpus has four T residues in all, so the thymine branches
    of every per-base table would otherwise hardly be visited"""
    from rnapolis.common import ResidueAuth, ResidueLabel
    from rnapolis.tertiary import Atom, Residue3D, Structure3D

    residues = list(s3.residues)
    for slot in slots:
        k = slot % len(residues)
        r = residues[k]
        if r.one_letter_name != "U":
            continue
        label = ResidueLabel(r.label.chain, r.label.number, "DT") if r.label is not None else None
        auth = ResidueAuth(r.auth.chain, r.auth.number, r.auth.icode, "DT") if r.auth is not None else None
        atoms = [Atom(a.entity_id, label, auth, a.model, a.name, a.x, a.y, a.z, a.occupancy) for a in r.atoms]
        ring = [a for a in r.atoms if a.name in ("N1", "C2", "N3", "C4", "C5", "C6")]
        c5 = next((a for a in r.atoms if a.name == "C5"), None)
        if add_c7 and c5 is not None and len(ring) == 6:
            centre = np.mean(np.array([[a.x, a.y, a.z] for a in ring]), axis=0)
            v = np.array([c5.x, c5.y, c5.z]) - centre
            p = np.array([c5.x, c5.y, c5.z]) + 1.5 * v / np.linalg.norm(v)
            atoms.append(Atom(c5.entity_id, label, auth, c5.model, "C7", float(p[0]), float(p[1]), float(p[2]), c5.occupancy))
        residues[k] = Residue3D(label, auth, r.model, "T", tuple(atoms))
    return Structure3D(residues)


def split_fragments(s3, cuts):
    """the records of a residue cut into two NON-ADJACENT blocks (rebuilt bases appended after the chain, 'backbone
    first, bases later' files, atom_site rows sorted by something other than residue): the library's parser groups
    consecutive records only, so such a file arrives as two Residue3D fragments carrying one identity - which is what
    this builds. cuts: [slot, which part moves, where to]"""
    from rnapolis.tertiary import Residue3D, Structure3D

    PHOSPHATE = {"P", "OP1", "OP2", "OP3", "O1P", "O2P", "O3P"}
    SUGAR = {"C1'", "C2'", "C3'", "C4'", "C5'", "O2'", "O3'", "O4'", "O5'"}
    residues = list(s3.residues)
    plan = {}
    for slot, how, where in cuts:
        plan[slot % len(residues)] = (how, where)
    first, later_next, later_end = [], {}, []
    for k, r in enumerate(residues):
        if k not in plan:
            first.append((k, r))
            continue
        how, where = plan[k]
        if how == "base-later":
            moved = [a for a in r.atoms if a.name not in PHOSPHATE and a.name not in SUGAR]
        elif how == "backbone-later":
            moved = [a for a in r.atoms if a.name in PHOSPHATE or a.name in SUGAR]
        else:
            moved = [a for a in r.atoms if a.name in SUGAR]
        stay = [a for a in r.atoms if a not in moved]
        if not moved or not stay:
            first.append((k, r))
            continue
        first.append((k, Residue3D(r.label, r.auth, r.model, r.one_letter_name, tuple(stay))))
        frag = Residue3D(r.label, r.auth, r.model, r.one_letter_name, tuple(moved))
        if where == "next" and k + 1 < len(residues):
            later_next[k + 1] = later_next.get(k + 1, []) + [frag]
        else:
            later_end.append(frag)
    out = []
    for k, r in first:
        out.append(r)
        out += later_next.get(k, [])
    return Structure3D(out + later_end)


def mini_ident_fn(relabel, idx):
    if not relabel:
        return None
    slot = {ri: s for s, ri in enumerate(sorted(idx))}
    n = len(idx)

    def fn(ri, chain, number):
        s = slot[ri]
        if relabel.startswith("icode-runs-"):
            r = int(relabel[-1])
            return ("A", 20 + s // r, None if s % r == 0 else chr(ord("A") + s % r - 1))
        if relabel == "descending":
            return ("A", 100 - 3 * s, None)
        if relabel in ("author-from-zero", "author-from-minus-2"):
            first = 0 if relabel == "author-from-zero" else -2
            return ("A", first + s, None, 1 + s)
        if relabel == "chains-reversed":
            half = (n + 1) // 2
            return ("T" if s < half else "P", 1 + s, None)
        if relabel in ("chains-B10-B7", "chains-9-10"):
            # chain names of assembly / bundle files: a common stem and digit runs of different length - as text "B10"
            # sorts before "B7" and "10" before "9"
            half = (n + 1) // 2
            a, b = ("B7", "B10") if relabel == "chains-B10-B7" else ("9", "10")
            return (a if s < half else b, 1 + s, None)
        raise ValueError(relabel)

    return fn


# ---------------------------------------------------------------------------
# steered two-residue placements: one decision quantity of the stacking definition is put at a prescribed
# distance from its threshold by construction (the other two clearly satisfied), using the reference model's
# own centroid / normal definitions


def _rot_about(axis, angle_deg):
    return small_rotation(list(axis), angle_deg)


def _perp(n):
    a = np.cross(n, [1.0, 0.0, 0.0])
    if np.linalg.norm(a) < 0.3:
        a = np.cross(n, [0.0, 1.0, 0.0])
    return a / np.linalg.norm(a)


@functools.lru_cache(maxsize=None)
def complete_bases(fn):
    """indices of residues of a corpus file whose base normal and centroid are defined in the reference model"""
    s3 = corpus.structure(fn)
    rr = geomref.from_structure3d(s3)
    return [r.idx for r in rr if geomref.normal(r) is not None and geomref.centroid(r) is not None and r.letter in geomref.R_EDGES]


def st_steered_stack(files):
    from hypothesis import strategies as st

    delta = st.sampled_from([1e-5, 1e-4, 1e-3, 1e-2, 0.1, 1.0])
    return st.fixed_dictionaries({
        "kind": st.just("steered-stack"), "file": st.sampled_from(files), "r1": st.integers(0, 10 ** 6), "r2": st.integers(0, 10 ** 6),
        "mode": st.sampled_from(["normals", "offset", "distance", "copy"]), "delta": delta, "side": st.sampled_from([-1, 1]),
        "antiparallel": st.booleans(), "spin": st.floats(0, 360), "azimuth": st.floats(0, 360),
        "first_is_reference": st.booleans()})


def build_steered_stack(case):
    s3 = corpus.structure(case["file"])
    idx = complete_bases(case["file"])
    if len(idx) < 2:
        raise ValueError("no complete bases in " + case["file"])
    i1 = idx[case["r1"] % len(idx)]
    i2 = idx[case["r2"] % len(idx)]
    if i1 == i2:
        i2 = idx[(case["r2"] + 1) % len(idx)]
    i1, i2 = sorted((i1, i2))  # i1 is the earlier residue of the structure
    rr = {r.idx: r for r in geomref.from_structure3d(s3)}
    if case["mode"] == "copy":
        # a translated copy of one residue stacked on the original: the two normals are parallel to the last bit
        # (or antiparallel when the copy is flipped), as in models assembled from repeated units
        return _translated_copy(s3, rr[i1], case)
    A, B = rr[i1], rr[i2]
    # which of the two is kept in place (reference) and which is moved
    ref, mov = (A, B) if case["first_is_reference"] else (B, A)
    n_ref, c_ref = geomref.normal(ref), geomref.centroid(ref)
    n_mov, c_mov = geomref.normal(mov), geomref.centroid(mov)
    n_ref = n_ref / np.linalg.norm(n_ref)
    n_mov = n_mov / np.linalg.norm(n_mov)
    mode, side, delta = case["mode"], case["side"], case["delta"]
    theta = (geomref.ST_NORMALS + side * delta) if mode == "normals" else 12.0
    phi = (geomref.ST_OFFSET + side * delta) if mode == "offset" else 10.0
    dist = (geomref.ST_MAX + side * delta) if mode == "distance" else 4.0
    # frame: n_ref, and a perpendicular direction a2 at the drawn azimuth
    a0 = _perp(n_ref)
    a2 = _rot_about(n_ref, case["azimuth"]) @ a0
    # v = vector from the LATER residue's centroid to the EARLIER one; it makes the angle phi with n_ref
    v = np.cos(np.radians(phi)) * n_ref + np.sin(np.radians(phi)) * a2
    # target normal of the moved residue: n_ref tilted by theta AWAY from v (so that the angle between v and the
    # moved normal is phi + theta and the reference normal decides the offset criterion)
    t = np.cos(np.radians(theta)) * n_ref - np.sin(np.radians(theta)) * a2
    if case["antiparallel"]:
        t = -t
    # rotation taking n_mov to t, composed with a spin about t
    ax = np.cross(n_mov, t)
    if np.linalg.norm(ax) < 1e-9:
        R0 = np.eye(3) if np.dot(n_mov, t) > 0 else _rot_about(_perp(n_mov), 180.0)
    else:
        ang = np.degrees(np.arctan2(np.linalg.norm(ax), np.dot(n_mov, t)))
        R0 = _rot_about(ax / np.linalg.norm(ax), ang)
    R = _rot_about(t, case["spin"]) @ R0
    # centroid of the moved residue: the later->earlier vector must be dist * v
    later_is_mov = mov.idx > ref.idx
    c_target = c_ref - dist * v if later_is_mov else c_ref + dist * v

    def pf(xyz, ri, k):
        if ri == mov.idx:
            return R @ (xyz - c_mov) + c_target
        return xyz

    return rebuild(s3, keep={i1, i2}, point_fn=pf)


# ---------------------------------------------------------------------------
# steered hydrogen-bond distance: one donor-acceptor distance between two neighbouring corpus residues is put at
# 4.0 A +- delta by translating the second residue along the line joining the two atoms


def _atom_pairs(ri, rj, what):
    Li, Lj = ri.letter, rj.letter
    out = []
    if Li not in geomref.R_EDGES or Lj not in geomref.R_EDGES:
        return out
    if what == "base":
        for d_list, a_list, swap in ((geomref.R_DONORS[Li], geomref.R_ACCEPTORS[Lj] + ["O2'"], False),
                                     (geomref.R_DONORS[Lj], geomref.R_ACCEPTORS[Li] + ["O2'"], True)):
            for d in d_list:
                for a in a_list:
                    n1, n2 = (a, d) if swap else (d, a)
                    if n1 in ri.atoms and n2 in rj.atoms and (n1, n2) not in out and not (n1 == "O2'" and n2 == "O2'"):
                        out.append((n1, n2))
    else:
        oxy = geomref.R_PHOSPHATE if what == "bph" else geomref.R_RIBOSE
        for d in geomref.R_DONORS[Li]:
            if d == "O2'" or d not in ri.atoms:
                continue
            for a in oxy:
                if a in rj.atoms:
                    out.append((d, a))
    return [p for p in out if float(np.linalg.norm(ri.atoms[p[0]] - rj.atoms[p[1]])) <= 7.5]


def st_steered_hbond(files):
    from hypothesis import strategies as st

    return st.fixed_dictionaries({
        "kind": st.just("steered-hbond"), "file": st.sampled_from(files), "pair": st.integers(0, 10 ** 6),
        "contact": st.integers(0, 10 ** 6), "what": st.sampled_from(["base", "base", "bph", "br", "angle", "angle", "cistrans", "bphtorsion"]),
        "bound": st.sampled_from([50.0, 130.0]),
        "delta": st.sampled_from([1e-5, 1e-4, 1e-3, 1e-2, 0.1, 0.5]), "side": st.sampled_from([-1, 1]), "swap": st.booleans(),
        "reletter": st.sampled_from([None, None, None, {"slots": [0, 1], "c7": True}, {"slots": [0, 1], "c7": False}])})


@functools.lru_cache(maxsize=None)
def two_contact_pairs(fn):
    """neighbouring residue pairs of a corpus file with exactly two possibly-true base-base contacts: the pairs
    whose existence hangs on every single contact"""
    s3 = corpus.structure(fn)
    rr = {r.idx: r for r in geomref.from_structure3d(s3)}
    out = []
    for i, j in neighbour_pairs(fn):
        cs, _ = geomref.base_contacts(rr[i], rr[j])
        if len([c for c in cs if not c.via_o2]) == 2:
            out.append((i, j))
    return out


def build_steered_hbond(case, info=None):
    s3 = corpus.structure(case["file"])
    pairs = neighbour_pairs(case["file"])
    if case["what"] in ("base", "angle") and case["pair"] % 4 != 0 and two_contact_pairs(case["file"]):
        pairs = two_contact_pairs(case["file"])
    i, j = pairs[case["pair"] % len(pairs)]
    if case.get("swap"):
        i, j = j, i
    rr = {r.idx: r for r in geomref.from_structure3d(s3)}
    if case["what"] == "cistrans":
        return _steer_cis_trans(s3, rr, i, j, case, info)
    if case["what"] == "angle":
        return _steer_angle(s3, rr, i, j, case, info)
    if case["what"] == "bphtorsion":
        return _steer_bph_torsion(s3, rr, i, j, case, info)
    cand = _atom_pairs(rr[i], rr[j], case["what"])
    if not cand:
        if info is not None:
            info["steer_skipped"] = True
        return rebuild(s3, keep={i, j})
    n1, n2 = cand[case["contact"] % len(cand)]
    pa, pb = rr[i].atoms[n1], rr[j].atoms[n2]
    d0 = float(np.linalg.norm(pb - pa))
    if d0 < 1e-6:
        if info is not None:
            info["steer_skipped"] = True
        return rebuild(s3, keep={i, j})
    u = (pb - pa) / d0
    shift = (geomref.HB_MAX + case["side"] * case["delta"] - d0) * u
    if info is not None:
        info["steered_atoms"] = (i, n1, j, n2)

    def pf(xyz, ri, k):
        return xyz + shift if ri == j else xyz

    return rebuild(s3, keep={i, j}, point_fn=pf)


SPLIT_DONORS = {"A": ("N1", "C6", "N6"), "G": ("N3", "C2", "N2"), "C": ("N3", "C4", "N4")}


def _steer_bph_torsion(s3, rr, i, j, case, info):
    """the amino donor of residue i (A N6, G N2, C N4) and a phosphate / ribose oxygen of residue j: j is first moved
    along the donor-oxygen line to 3.5 A (a clear contact) and then rotated about the C-N bond axis of the donor, which
    changes the torsion ring-N, ring-C, donor, oxygen by exactly the rotation angle and leaves the distance alone: the
    torsion that separates the two classes of that donor (6|7, 1|3) sits at +-90 +- delta"""
    ri, rj = rr[i], rr[j]
    trip = SPLIT_DONORS.get(ri.letter)
    oxy = [a for a in (geomref.R_PHOSPHATE + geomref.R_RIBOSE) if a in rj.atoms]
    if trip is None or any(a not in ri.atoms for a in trip) or not oxy:
        if info is not None:
            info["steer_skipped"] = True
        return rebuild(s3, keep={i, j})
    p, q, d = (ri.atoms[a] for a in trip)
    name = oxy[case["contact"] % len(oxy)]
    a0 = rj.atoms[name]
    d0 = float(np.linalg.norm(a0 - d))
    axis = d - q
    if d0 < 1e-6 or np.linalg.norm(axis) < 1e-6:
        if info is not None:
            info["steer_skipped"] = True
        return rebuild(s3, keep={i, j})
    shift = (3.5 - d0) * (a0 - d) / d0
    axis = axis / np.linalg.norm(axis)
    t0 = geomref.dihedral_deg(p, q, d, a0 + shift)
    if np.isnan(t0):
        if info is not None:
            info["steer_skipped"] = True
        return rebuild(s3, keep={i, j})
    target = (90.0 + case["side"] * case["delta"]) * (1 if t0 >= 0 else -1)
    for sense in (1, -1):
        R = _rot_about(axis, sense * (target - t0))
        a1 = R @ (a0 + shift - d) + d
        t1 = geomref.dihedral_deg(p, q, d, a1)
        if abs(t1 - target) < 1e-8 and abs(float(np.linalg.norm(a1 - d)) - 3.5) < 1e-9:
            if info is not None:
                info["steered_bph_torsion"] = (trip[2], name, target)
            return rebuild(s3, keep={i, j}, point_fn=lambda xyz, r, k, R=R: R @ (xyz + shift - d) + d if r == j else xyz)
    if info is not None:
        info["steer_skipped"] = True
    return rebuild(s3, keep={i, j})


def _steer_cis_trans(s3, rr, i, j, case, info):
    """rotate residue j about the axis through the two glycosidic nitrogens so that |C1'-N..N-C1'| = 90 +- delta"""
    ri, rj = rr[i], rr[j]
    n1 = "N9" if ri.letter in ("A", "G") else "N1"
    n2 = "N9" if rj.letter in ("A", "G") else "N1"
    if any(a not in ri.atoms for a in ("C1'", n1)) or any(a not in rj.atoms for a in ("C1'", n2)):
        if info is not None:
            info["steer_skipped"] = True
        return rebuild(s3, keep={i, j})
    t0 = geomref.dihedral_deg(ri.atoms["C1'"], ri.atoms[n1], rj.atoms[n2], rj.atoms["C1'"])
    axis = rj.atoms[n2] - ri.atoms[n1]
    if np.isnan(t0) or np.linalg.norm(axis) < 1e-6:
        if info is not None:
            info["steer_skipped"] = True
        return rebuild(s3, keep={i, j})
    target = (90.0 + case["side"] * case["delta"]) * (1 if t0 >= 0 else -1)
    origin = rj.atoms[n2]
    # the dihedral moves by the rotation angle (up to the sign convention): try both senses, keep the one that lands
    for sense in (1, -1):
        R = _rot_about(axis / np.linalg.norm(axis), sense * (target - t0))
        p4 = R @ (rj.atoms["C1'"] - origin) + origin
        t1 = geomref.dihedral_deg(ri.atoms["C1'"], ri.atoms[n1], rj.atoms[n2], p4)
        if abs(t1 - target) < 1e-8:
            if info is not None:
                info["steered_dihedral"] = target
            return rebuild(s3, keep={i, j}, point_fn=lambda xyz, r, k, R=R: R @ (xyz - origin) + origin if r == j else xyz)
    if info is not None:
        info["steer_skipped"] = True
    return rebuild(s3, keep={i, j})


def _steer_angle(s3, rr, i, j, case, info):
    """rotate residue i about an axis through its own contact atom, perpendicular to the contact vector and its base
    normal, so that the angle between that normal and the donor-acceptor vector is 50 (or 130) +- delta; the contact
    vector itself does not move"""
    ri, rj = rr[i], rr[j]
    cand = [p for p in _atom_pairs(ri, rj, "base") if float(np.linalg.norm(ri.atoms[p[0]] - rj.atoms[p[1]])) <= 3.9]
    nv = geomref.normal(ri)
    if not cand or nv is None or geomref.normal(rj) is None:
        if info is not None:
            info["steer_skipped"] = True
        return rebuild(s3, keep={i, j})
    n1, n2 = cand[case["contact"] % len(cand)]
    v = ri.atoms[n1] - rj.atoms[n2]
    a0 = geomref.angle_deg(nv, v)
    axis = np.cross(v, nv)
    if np.linalg.norm(axis) < 1e-6:
        if info is not None:
            info["steer_skipped"] = True
        return rebuild(s3, keep={i, j})
    axis = axis / np.linalg.norm(axis)
    target = case.get("bound", 50.0) + case["side"] * case["delta"]
    origin = ri.atoms[n1]
    for sense in (1, -1):
        R = _rot_about(axis, sense * (target - a0))
        a1 = geomref.angle_deg(R @ nv, v)
        if abs(a1 - target) < 1e-8:
            if info is not None:
                info["steered_angle"] = (n1, n2, target)
            return rebuild(s3, keep={i, j}, point_fn=lambda xyz, r, k, R=R: R @ (xyz - origin) + origin if r == i else xyz)
    if info is not None:
        info["steer_skipped"] = True
    return rebuild(s3, keep={i, j})


def _translated_copy(s3, ref, case):
    from rnapolis.common import ResidueAuth
    from rnapolis.tertiary import Atom, Residue3D, Structure3D

    n = geomref.normal(ref)
    n = n / np.linalg.norm(n)
    a2 = _rot_about(n, case["azimuth"]) @ _perp(n)
    phi = 10.0 + 30.0 * (case["spin"] / 360.0)  # offset angle 10..40 deg: clearly a stacking
    v = np.cos(np.radians(phi)) * n + np.sin(np.radians(phi)) * a2
    # the later->earlier centroid vector must be +3.6 v: the copy sits at -3.6 v when it is listed second
    shift = (-3.6 if case["first_is_reference"] else 3.6) * v
    r = s3.residues[ref.idx]
    flip = None
    if case["antiparallel"]:
        c = geomref.centroid(ref)
        flip = (_rot_about(a2, 180.0), c)
    auth = ResidueAuth("Z", r.number, None, r.name)
    atoms = []
    for a in r.atoms:
        xyz = np.array([a.x, a.y, a.z])
        if flip is not None:
            xyz = flip[0] @ (xyz - flip[1]) + flip[1]
        xyz = xyz + shift
        atoms.append(Atom(a.entity_id, None, auth, a.model, a.name, float(xyz[0]), float(xyz[1]), float(xyz[2]), a.occupancy))
    r2 = Residue3D(None, auth, r.model, r.one_letter_name, tuple(atoms))
    first = Residue3D(r.label, r.auth, r.model, r.one_letter_name, r.atoms)
    return Structure3D([first, r2] if case["first_is_reference"] else [r2, first])


# ---------------------------------------------------------------------------
# crowded placements: several slightly perturbed copies of a short run of residues written as separate chains of ONE
# model (superimposed conformers / docking poses / merged ensembles): a base then has many more base centroids within
# the stacking distance than any physically spaced structure offers


def st_crowd(files):
    from hypothesis import strategies as st

    move = st.tuples(st.lists(st.floats(-1, 1), min_size=3, max_size=3), st.floats(-12, 12),
                     st.lists(st.floats(-0.9, 0.9), min_size=3, max_size=3)).map(list)
    return st.fixed_dictionaries({"kind": st.just("crowd"), "file": st.sampled_from(files), "start": st.integers(0, 10 ** 6),
                                  "run": st.integers(1, 3), "moves": st.lists(move, min_size=2, max_size=16),
                                  # copies that lack their C1' atoms (bases without a defined glycosidic torsion) compete
                                  # with the complete copies for the edges of their partners
                                  "no_c1": st.lists(st.sampled_from([False, False, True]), min_size=16, max_size=16)})


def build_crowd(case):
    from rnapolis.tertiary import Structure3D

    s3 = corpus.structure(case["file"])
    idx = complete_bases(case["file"])
    if not idx:
        raise ValueError("no complete bases in " + case["file"])
    k0 = case["start"] % len(idx)
    run = idx[k0:k0 + case["run"]]
    pts = np.array([[a.x, a.y, a.z] for ri in run for a in s3.residues[ri].atoms])
    centre = pts.mean(axis=0)
    chains = "ABCDEFGHIJKLMNOPQRSTUVWXYZ"
    residues = []
    placed = []
    for c, (axis, ang, tr) in enumerate(case["moves"]):
        R = small_rotation(axis, ang) if c else np.eye(3)
        t = np.array(tr) if c else np.zeros(3)
        # two distinct residues never occupy the same place: a copy displaced by less than 0.05 A from an earlier one
        # is left out (the library keys its look-up tables by coordinates, exact coincidence is outside its domain)
        if any(float(np.linalg.norm(t - q)) < 0.05 for q in placed):
            continue
        placed.append(t)
        strip = bool(case.get("no_c1") and case["no_c1"][c % len(case["no_c1"])])
        part = rebuild(s3, keep=set(run), point_fn=lambda xyz, ri, k, R=R, t=t: R @ (xyz - centre) + centre + t,
                       ident_fn=lambda ri, chain, number, c=c: (chains[c], number),
                       atom_keep=(lambda ri, k: s3.residues[ri].atoms[k].name != "C1'") if strip else None)
        residues += list(part.residues)
    return Structure3D(residues)


# ---------------------------------------------------------------------------
# a structure pulled apart between two consecutive stacked residues: everything after residue i moves along the line of
# the two centroids until their distance is a drawn value just inside 6 A - a qualifying pair at the far end of the
# range, inside a structure of dozens of bases (where a spatial index prunes by cells, not by pairs)


def st_pulled_apart(files):
    from hypothesis import strategies as st

    return st.fixed_dictionaries({"kind": st.just("pulled-apart"), "file": st.sampled_from(files), "at": st.integers(0, 10 ** 6),
                                  "distance": st.sampled_from([5.5, 5.6, 5.7, 5.8, 5.9, 5.95, 5.99]),
                                  "rot": st.integers(0, 23)})


def build_pulled_apart(case):
    s3 = corpus.structure(case["file"])
    rr = geomref.from_structure3d(s3)
    ok = [k for k in range(len(rr) - 1) if geomref.centroid(rr[k]) is not None and geomref.centroid(rr[k + 1]) is not None
          and geomref.normal(rr[k]) is not None and geomref.normal(rr[k + 1]) is not None and rr[k].chain == rr[k + 1].chain
          and 2.5 < float(np.linalg.norm(geomref.centroid(rr[k]) - geomref.centroid(rr[k + 1]))) < 5.4]
    if not ok:
        return s3
    k = ok[case["at"] % len(ok)]
    c0, c1 = geomref.centroid(rr[k]), geomref.centroid(rr[k + 1])
    u = (c1 - c0) / float(np.linalg.norm(c1 - c0))
    shift = (case["distance"] - float(np.linalg.norm(c1 - c0))) * u
    R = np.array(AXIS_ROTATIONS[case["rot"] % 24], dtype=float)
    return rebuild(s3, point_fn=lambda xyz, ri, a: R @ (xyz + shift if ri > k else xyz))


# ---------------------------------------------------------------------------
# four columns of six stacked copies of one base: two coaxial columns separated by a gap just inside 6 A, and two columns
# 20-30 A to either side whose heights straddle the gap (one starts just above the lower column's top, one ends just
# below the upper column's bottom): the pair across the gap qualifies, and whether a spatial index examines it depends
# on where the OTHER columns put its cell boundaries


def st_columns(files):
    from hypothesis import strategies as st

    return st.fixed_dictionaries({"kind": st.just("columns"), "file": st.sampled_from(files), "r": st.integers(0, 10 ** 6),
                                  "gap": st.sampled_from([5.5, 5.6, 5.7, 5.75, 5.8, 5.9, 5.95]), "lateral": st.sampled_from([20.0, 25.0, 30.0]),
                                  "up": st.sampled_from([0.1, 0.2, 0.4]), "down": st.sampled_from([0.3, 0.5, 1.0, 1.5]),
                                  "rot": st.integers(0, 23), "mirror": st.booleans()})


def build_columns(case):
    from rnapolis.tertiary import Structure3D

    s3 = corpus.structure(case["file"])
    idx = complete_bases(case["file"])
    if not idx:
        raise ValueError("no complete bases in " + case["file"])
    ri = idx[case["r"] % len(idx)]
    ref = {r.idx: r for r in geomref.from_structure3d(s3)}[ri]
    n = geomref.normal(ref)
    n = n / np.linalg.norm(n)
    c = geomref.centroid(ref)
    e1 = _perp(n)
    side = -1.0 if case.get("mirror") else 1.0
    gap = case["gap"]
    heights = []  # (chain, number, height, lateral)
    e2 = np.cross(n, e1)
    for k in range(6):
        heights.append(("A", 7 + k, -3.4 * k, -0.3, 0.0))            # lower column, its top base at height 0
        heights.append(("A", 6 - k, gap + 3.4 * k, 0.3, 0.0))        # upper column, its bottom base at height gap
        heights.append(("B", 6 - k, case["up"] + 3.4 * k, -side * case["lateral"], 0.5))
        heights.append(("C", 1 + k, gap - case["down"] - 3.4 * k, side * case["lateral"], -0.5))
    R = np.array(AXIS_ROTATIONS[case["rot"] % 24], dtype=float)
    residues = []
    for chain, number, h, x, y in sorted(heights):
        t = h * n + x * e1 + y * e2
        part = rebuild(s3, keep={ri}, point_fn=lambda xyz, r_, a, t=t: R @ (xyz - c + t),
                       ident_fn=lambda r_, ch, num, chain=chain, number=number: (chain, number))
        residues += list(part.residues)
    return Structure3D(residues)


# ---------------------------------------------------------------------------
# two-contact base-ribose / base-phosphate placements (the 3+5 -> 4 and 7+9 -> 8 merges)

TWO_CONTACT_DONORS = {"G": ("N2", "N1"), "C": ("N4", "C5"), "U": ("N3", "C5")}


def build_two_contact(case):
    """two residues of a corpus file: the donor (a complete G, C or U) where it is, the acceptor moved rigidly so that two
    of its oxygens (`oxygens`: O2'/O4' for base-ribose, OP1/OP2 for base-phosphate) come `dist` A out from the two donor
    atoms of the merging classes, turned by `phi` about the line through the two oxygens, the outward direction tilted by `lift` towards the
    base normal; `swap` exchanges which oxygen faces which donor, `order` which residue is listed first. Returns the
    Structure3D (or None when the file lacks such residues); the reference model decides afterwards what the placement is."""
    from rnapolis.tertiary import Structure3D

    s3 = corpus.structure(case["file"])
    donors = [ri for ri, r in enumerate(s3.residues) if r.one_letter_name == case["letter"]
              and all(r.find_atom(n) is not None for n in geomref.R_BASE_ATOMS[case["letter"]])]
    o1n, o2n = case["oxygens"]
    accs = [ri for ri, r in enumerate(s3.residues) if r.find_atom(o1n) is not None and r.find_atom(o2n) is not None and r.find_atom("C1'") is not None]
    if not donors or not accs:
        return None
    di = donors[case["donor"] % len(donors)]
    ai = accs[case["acceptor"] % len(accs)]
    if ai == di:
        ai = accs[(case["acceptor"] + 1) % len(accs)]
        if ai == di:
            return None
    D_, A_ = s3.residues[di], s3.residues[ai]
    P = lambda r, n: np.array([r.find_atom(n).x, r.find_atom(n).y, r.find_atom(n).z])
    base = np.array([P(D_, n) for n in geomref.R_BASE_ATOMS[case["letter"]]])
    c = base.mean(axis=0)
    normal = np.linalg.svd(base - c)[2][2]
    dn1, dn2 = TWO_CONTACT_DONORS[case["letter"]]
    t = []
    for dn in (dn1, dn2):
        x = P(D_, dn)
        out = x - c
        out = out - np.dot(out, normal) * normal
        out /= np.linalg.norm(out)
        d_ = out + case["lift"] * normal
        t.append(x + case["dist"] * d_ / np.linalg.norm(d_))
    s1, s2 = (P(A_, o1n), P(A_, o2n)) if not case["swap"] else (P(A_, o2n), P(A_, o1n))
    sep = np.linalg.norm(s2 - s1)
    mid, u = (t[0] + t[1]) / 2, (t[1] - t[0]) / np.linalg.norm(t[1] - t[0])
    t1, t2 = mid - u * sep / 2, mid + u * sep / 2
    # rotation taking (s2 - s1) onto (t2 - t1), then a turn by phi about that line
    a, b = (s2 - s1) / sep, u
    cth = float(np.dot(a, b))
    if cth < -0.999999:
        R0 = _rot_about(_perp(a), 180.0)
    else:
        x = np.cross(a, b)
        K = np.array([[0, -x[2], x[1]], [x[2], 0, -x[0]], [-x[1], x[0], 0]])
        R0 = np.eye(3) + K + K @ K / (1 + cth)
    R = _rot_about(b, case["phi"]) @ R0
    moved = rebuild(s3, keep={ai}, point_fn=lambda xyz, ri, k: R @ (xyz - s1) + t1, chain_map={A_.chain: "Y"})
    fixed = rebuild(s3, keep={di}, chain_map={D_.chain: "X"})
    parts = list(fixed.residues) + list(moved.residues) if case["order"] == "donor-first" else list(moved.residues) + list(fixed.residues)
    return Structure3D(parts)
