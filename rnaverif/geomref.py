"""Independent geometric reference model for C03 / C04 / C05 / C11.

Works on a light representation extracted from rnapolis Structure3D objects
(residue identity, one-letter name, atom name -> coordinates).  Tables below are
literal copies written from the Leontis-Westhof edge assignment the property
anchors name; all geometry helpers are the harness's own.
"""

from __future__ import annotations

import math
from dataclasses import dataclass, field
from typing import Dict, List, Optional, Tuple

import numpy as np

EPS = 1e-6  # margin (A or degrees) inside which an elementary predicate is "undecided"

HB_MAX = 4.0
HB_ANGLE = (50.0, 130.0)
ST_MAX = 6.0
ST_NORMALS = 35.0
ST_OFFSET = 45.0

R_BASE_ATOMS = {
    "A": ["N1", "C2", "N3", "C4", "C5", "C6", "N6", "N7", "C8", "N9"],
    "G": ["N1", "C2", "N2", "N3", "C4", "C5", "C6", "O6", "N7", "C8", "N9"],
    "C": ["N1", "C2", "O2", "N3", "C4", "N4", "C5", "C6"],
    "U": ["N1", "C2", "O2", "N3", "C4", "O4", "C5", "C6"],
    "T": ["N1", "C2", "O2", "N3", "C4", "O4", "C5", "C6", "C7"],
}
R_DONORS = {
    "A": ["C2", "N6", "C8", "O2'"],
    "G": ["N1", "N2", "C8", "O2'"],
    "C": ["N4", "C5", "C6", "O2'"],
    "U": ["N3", "C5", "C6", "O2'"],
    "T": ["N3", "C6", "C7"],
}
R_ACCEPTORS = {
    "A": ["N1", "N3", "N7"],
    "G": ["N3", "O6", "N7"],
    "C": ["O2", "N3"],
    "U": ["O2", "O4"],
    "T": ["O2", "O4"],
}
R_PHOSPHATE = ["OP1", "OP2", "O5'", "O3'"]
R_RIBOSE = ["O4'", "O2'"]
R_EDGES = {
    "A": {"N1": "W", "C2": "WS", "N3": "S", "N6": "WH", "N7": "H", "C8": "H", "O2'": "S"},
    "G": {"N1": "W", "N2": "WS", "N3": "S", "O6": "WH", "N7": "H", "C8": "H", "O2'": "S"},
    "C": {"O2": "WS", "N3": "W", "N4": "WH", "C5": "H", "C6": "H", "O2'": "S"},
    "U": {"O2": "WS", "N3": "W", "O4": "WH", "C5": "H", "C6": "H", "O2'": "S"},
    "T": {"O2": "WS", "N3": "W", "O4": "WH", "C6": "H", "C7": "H"},
}

SAENGER = {
    ("AA", "tWW"): "I", ("AA", "tHH"): "II", ("GG", "tWW"): "III", ("GG", "tSS"): "IV",
    ("AA", "tWH"): "V", ("AA", "tHW"): "V", ("GG", "cWH"): "VI", ("GG", "cHW"): "VI",
    ("GG", "tWH"): "VII", ("GG", "tHW"): "VII", ("AG", "cWW"): "VIII", ("GA", "cWW"): "VIII",
    ("AG", "cHW"): "IX", ("GA", "cWH"): "IX", ("AG", "tWS"): "X", ("GA", "tSW"): "X",
    ("AG", "tHS"): "XI", ("GA", "tSH"): "XI", ("UU", "tWW"): "XII", ("TT", "tWW"): "XII",
    ("UU", "cWW"): "XVI", ("TT", "cWW"): "XVI", ("CU", "tWW"): "XVII", ("UC", "tWW"): "XVII",
    ("CU", "cWW"): "XVIII", ("UC", "cWW"): "XVIII", ("CG", "cWW"): "XIX", ("GC", "cWW"): "XIX",
    ("AU", "cWW"): "XX", ("UA", "cWW"): "XX", ("AT", "cWW"): "XX", ("TA", "cWW"): "XX",
    ("AU", "tWW"): "XXI", ("UA", "tWW"): "XXI", ("AT", "tWW"): "XXI", ("TA", "tWW"): "XXI",
    ("CG", "tWW"): "XXII", ("GC", "tWW"): "XXII", ("AU", "cHW"): "XXIII", ("UA", "cWH"): "XXIII",
    ("AT", "cHW"): "XXIII", ("TA", "cWH"): "XXIII", ("AU", "tHW"): "XXIV", ("UA", "tWH"): "XXIV",
    ("AT", "tHW"): "XXIV", ("TA", "tWH"): "XXIV", ("AC", "tHW"): "XXV", ("CA", "tWH"): "XXV",
    ("AC", "tWW"): "XXVI", ("CA", "tWW"): "XXVI", ("GU", "tWW"): "XXVII", ("UG", "tWW"): "XXVII",
    ("GT", "tWW"): "XXVII", ("TG", "tWW"): "XXVII", ("GU", "cWW"): "XXVIII", ("UG", "cWW"): "XXVIII",
    ("GT", "cWW"): "XXVIII", ("TG", "cWW"): "XXVIII",
}
LW_ALL = [c + a + b for c in "ct" for a in "WHS" for b in "WHS"]


@dataclass
class RRes:
    idx: int  # position in the structure (file order)
    chain: str
    number: int
    icode: Optional[str]
    letter: str
    model: int
    atoms: Dict[str, np.ndarray]
    name: str = ""
    _normal: object = field(default=False, repr=False)

    @property
    def key(self):
        return (self.chain, self.number, self.icode or " ")

    @property
    def ident(self):
        return (self.chain, self.number, self.icode)


def from_structure3d(s3, model=None, merge=False) -> List[RRes]:
    """merge=True: record blocks that carry one identity (a residue whose records are not contiguous in the file)
    are ONE residue of the reference model, at the position of its first block"""
    out = []
    seen = {}
    for k, r in enumerate(s3.residues):
        if model is not None and r.model != model:
            continue
        chain, number, icode, name = identity(r)
        if merge and (r.model, chain, number, icode) in seen:
            atoms = seen[(r.model, chain, number, icode)].atoms
        else:
            atoms = {}
        for a in r.atoms:
            if a.name not in atoms:  # find_atom semantics: first atom of a name
                atoms[a.name] = np.array([a.x, a.y, a.z], dtype=float)
        if merge and (r.model, chain, number, icode) in seen:
            continue
        rr = RRes(len(out), chain, number, icode, r.one_letter_name, r.model, atoms, name or "")
        seen[(r.model, chain, number, icode)] = rr
        out.append(rr)
    return out


def identity(r):
    """(chain, number, insertion code, name) of a residue read from its author identity when it has one, else from
    its label identity - taken from the two records themselves, not from the library's convenience properties"""
    au, lab = getattr(r, "auth", None), getattr(r, "label", None)
    if au is not None:
        return au.chain, au.number, au.icode, au.name
    if lab is not None:
        return lab.chain, lab.number, None, lab.name
    raise ValueError("residue without identity")


def angle_deg(u, v) -> float:
    c = float(np.dot(u, v)) / (float(np.linalg.norm(u)) * float(np.linalg.norm(v)))
    return math.degrees(math.acos(max(-1.0, min(1.0, c))))


def dihedral_deg(p1, p2, p3, p4) -> float:
    u = p3 - p2
    n = float(np.linalg.norm(u))
    if n == 0:
        return float("nan")
    u = u / n
    a = (p1 - p2) - np.dot(p1 - p2, u) * u
    b = (p4 - p3) - np.dot(p4 - p3, u) * u
    return math.degrees(math.atan2(float(np.dot(u, np.cross(a, b))), float(np.dot(a, b))))


def normal(r: RRes):
    if r._normal is not False:
        return r._normal
    if r.letter in ("A", "G"):
        names = ("N9", "N7", "N3")
    else:
        names = ("N1", "C4", "O2")
    if any(n not in r.atoms for n in names):
        r._normal = None
        return None
    o, p, q = (r.atoms[n] for n in names)
    nv = np.cross(p - o, q - o)
    ln = float(np.linalg.norm(nv))
    r._normal = nv / ln if ln > 0 else None
    return r._normal


def tri(value: float, threshold: float, op: str) -> Optional[bool]:
    """three-valued comparison: None when within EPS of the threshold"""
    if math.isnan(value):
        return None
    if abs(value - threshold) <= EPS:
        return None
    if op == "<=" or op == "<":
        return value < threshold
    return value > threshold


def and3(*vals):
    if any(v is False for v in vals):
        return False
    if any(v is None for v in vals):
        return None
    return True


def cis_trans(r1: RRes, r2: RRes):
    """('c'|'t'|None-undefined, undecided flag, margin)"""
    n1 = "N9" if r1.letter in ("A", "G") else "N1"
    n2 = "N9" if r2.letter in ("A", "G") else "N1"
    if "C1'" not in r1.atoms or "C1'" not in r2.atoms or n1 not in r1.atoms or n2 not in r2.atoms:
        return None, False, float("inf")
    t = dihedral_deg(r1.atoms["C1'"], r1.atoms[n1], r2.atoms[n2], r2.atoms["C1'"])
    if math.isnan(t):
        return None, True, 0.0
    margin = abs(abs(t) - 90.0)
    return ("c" if abs(t) < 90.0 else "t"), margin <= EPS, margin


@dataclass
class Contact:
    a1: str
    a2: str
    dist: float
    ang1: float
    ang2: float
    state: Optional[bool]  # True certainly, None undecided (False are not stored)
    via_o2: bool
    e1: str
    e2: str


def base_contacts(r1: RRes, r2: RRes) -> Tuple[List[Contact], float]:
    """all distinct donor-acceptor atom pairs between r1 and r2 (either direction)
    that are possibly within 4.0 A and 50-130 deg off both normals, with their
    edge letters; also returns the minimum margin over the tested quantities."""
    out = []
    margin = float("inf")
    if r1.letter not in R_EDGES or r2.letter not in R_EDGES:
        return out, margin
    nv1, nv2 = normal(r1), normal(r2)
    if nv1 is None or nv2 is None:
        return out, margin
    don1, acc1 = R_DONORS[r1.letter], R_ACCEPTORS[r1.letter] + ["O2'"]
    don2, acc2 = R_DONORS[r2.letter], R_ACCEPTORS[r2.letter] + ["O2'"]
    seen = set()
    for d_list, a_list, swap in ((don1, acc2, False), (don2, acc1, True)):
        for d in d_list:
            for a in a_list:
                n1, n2 = (a, d) if swap else (d, a)
                if (n1, n2) in seen:
                    continue
                if n1 not in r1.atoms or n2 not in r2.atoms:
                    continue
                if n1 not in R_EDGES[r1.letter] or n2 not in R_EDGES[r2.letter]:
                    continue
                if n1 == "O2'" and n2 == "O2'":
                    continue  # O2'...O2' is neither base-to-base nor edge-defining for a base
                seen.add((n1, n2))
                v = r1.atoms[n1] - r2.atoms[n2]
                dist = float(np.linalg.norm(v))
                if dist > HB_MAX + 0.5:
                    continue
                if dist == 0:
                    continue
                a1 = angle_deg(nv1, v)
                a2 = angle_deg(nv2, v)
                st = and3(tri(dist, HB_MAX, "<="), tri(a1, HB_ANGLE[0], ">"), tri(a1, HB_ANGLE[1], "<"),
                          tri(a2, HB_ANGLE[0], ">"), tri(a2, HB_ANGLE[1], "<"))
                margin = min(margin, abs(dist - HB_MAX))
                if dist <= HB_MAX + EPS:
                    margin = min(margin, abs(a1 - HB_ANGLE[0]), abs(a1 - HB_ANGLE[1]), abs(a2 - HB_ANGLE[0]), abs(a2 - HB_ANGLE[1]))
                if st is False:
                    continue
                out.append(Contact(n1, n2, dist, a1, a2, st, "O2'" in (n1, n2), R_EDGES[r1.letter][n1], R_EDGES[r2.letter][n2]))
    return out, margin


def centroid(r: RRes):
    names = R_BASE_ATOMS.get(r.letter, [])
    pts = [r.atoms[n] for n in names if n in r.atoms]
    if not pts:
        return None
    return np.mean(np.array(pts), axis=0)


def neighbours(residues: List[RRes], cutoff: float):
    """index pairs (i<j) of residues having any two atoms within cutoff (coarse O(n^2) prefilter on centres)"""
    cents = []
    rads = []
    for r in residues:
        pts = np.array(list(r.atoms.values())) if r.atoms else np.zeros((1, 3))
        c = pts.mean(axis=0)
        cents.append(c)
        rads.append(float(np.max(np.linalg.norm(pts - c, axis=1))) if len(pts) else 0.0)
    cents = np.array(cents)
    rads = np.array(rads)
    n = len(residues)
    out = []
    for i in range(n):
        d = np.linalg.norm(cents[i + 1:] - cents[i], axis=1)
        lim = rads[i] + rads[i + 1:] + cutoff
        for off in np.nonzero(d <= lim)[0]:
            out.append((i, i + 1 + int(off)))
    return out


def expected_stacking(ri: RRes, rj: RRes):
    """(state, same_direction or None, margin) for residues with ri earlier in the structure than rj"""
    ci, cj = centroid(ri), centroid(rj)
    if ci is None or cj is None:
        return False, None, float("inf")
    d = float(np.linalg.norm(ci - cj))
    if d > ST_MAX + 0.5:
        return False, None, float("inf")
    ni, nj = normal(ri), normal(rj)
    if ni is None or nj is None:
        return False, None, float("inf")
    margin = abs(d - ST_MAX)
    if d == 0:
        return None, None, 0.0
    a = angle_deg(ni, nj)
    an = min(a, 180.0 - a)
    v = ci - cj  # from the later residue to the earlier one
    off = min(angle_deg(v, ni), angle_deg(v, nj))
    t_d = tri(d, ST_MAX, "<=")
    t_n = tri(an, ST_NORMALS, "<=")
    t_o = tri(off, ST_OFFSET, "<=")
    st = and3(t_d, t_n, t_o)
    if t_d is not False:
        margin = min(margin, abs(an - ST_NORMALS))
        if t_n is not False:
            margin = min(margin, abs(off - ST_OFFSET))
    dot = float(np.dot(ni, nj))
    same = None if abs(dot) <= 1e-9 else dot > 0
    return st, same, margin


def bph_br_classes(donor: RRes, acceptor: RRes, acceptor_names) -> Tuple[set, float, int]:
    """classes implied by ANY base-donor atom of `donor` possibly within 4.0 A of one of the
    named oxygens of `acceptor`; also the margin and the number of contacts"""
    classes = set()
    margin = float("inf")
    n = 0
    L = donor.letter
    if L not in R_DONORS:
        return classes, margin, n
    for d in R_DONORS[L]:
        if d == "O2'" or d not in donor.atoms:
            continue
        for a in acceptor_names:
            if a not in acceptor.atoms:
                continue
            dist = float(np.linalg.norm(donor.atoms[d] - acceptor.atoms[a]))
            margin = min(margin, abs(dist - HB_MAX))
            if dist > HB_MAX + EPS:
                continue
            n += 1
            cs = set()
            split = None
            if L == "A":
                if d == "C2":
                    cs = {2}
                elif d == "N6":
                    split = ("N1", "C6", 6, 7)
                elif d == "C8":
                    cs = {0}
            elif L == "G":
                if d == "N1":
                    cs = {5}
                elif d == "N2":
                    split = ("N3", "C2", 1, 3)
                elif d == "C8":
                    cs = {0}
            elif L == "C":
                if d == "N4":
                    split = ("N3", "C4", 6, 7)
                elif d == "C5":
                    cs = {9}
                elif d == "C6":
                    cs = {0}
            elif L == "U":
                cs = {"N3": {5}, "C5": {9}, "C6": {0}}.get(d, set())
            elif L == "T":
                cs = {"N3": {5}, "C6": {0}, "C7": {9}}.get(d, set())
            if split is not None:
                p, q, cis_c, trans_c = split
                if p in donor.atoms and q in donor.atoms:
                    t = dihedral_deg(donor.atoms[p], donor.atoms[q], donor.atoms[d], acceptor.atoms[a])
                    m = abs(abs(t) - 90.0) if not math.isnan(t) else 0.0
                    margin = min(margin, m)
                    if m <= EPS:
                        cs = {cis_c, trans_c}
                    else:
                        cs = {cis_c} if abs(t) < 90.0 else {trans_c}
            classes |= cs
    return classes, margin, n
