"""C04 - stacking annotation equals its geometric definition."""

from __future__ import annotations

from rnaverif import corpus, gen3d, geomref
from rnaverif.props import c03
from rnaverif.runner import D, HarnessError, ShardResult, check_case, run_hypothesis

PROP_ID = "C04"
LEVEL = "exploration"
RULE = (
    "Domains as C03: whole corpus structures; small corpus structures under drawn rigid motion, jitter, residue and "
    "atom thinning; mini-structures of 2-4 neighbouring residues with independent small rigid perturbations (which "
    "sweep centroid distance around 6 A, normal angle around 35/145 deg and offset angle around 45 deg); STEERED "
    "two-residue placements in which one of the three decision quantities is put by construction at 6 A / 35 deg / 45 deg "
    "+- {1e-5 .. 1} (the other two clearly satisfied; parallel and antiparallel normals; either residue moved); CROWDED "
    "placements (2-16 slightly perturbed copies of a run of 1-3 bases as separate chains of one model, so that a base has "
    "up to ~40 base centroids within 6 A). Oracle: for "
    "ALL residue pairs (O(n^2), no KD-tree) stacking <=> centroid distance <= 6 and normals within 35 deg of "
    "(anti)parallel and the later->earlier centroid vector within 45 deg of one of the normals (directed reading, see "
    "DESIGN C04), three-valued at 1e-6; checked both ways (reported => possibly true, certainly true => reported), "
    "each unordered pair once, nt1 < nt2 by (chain, number, icode), label in {upward, downward} <=> normals point the "
    "same way. Non-trivial: >=1 expected stacking and >=1 candidate failing exactly one criterion; distinct = "
    "distinct case description."
)
ASSUMPTIONS = [
    "normal convention (N7-N9)x(N3-N9) for purines, (C4-N1)x(O2-N1) otherwise; vector from the later residue's centroid to the earlier one (the directed criterion the anchored code implements, confirmed on the corpus)",
    "centroid over the base heavy atoms present in the residue",
    "pairs within 1e-6 of a threshold are undecided",
    "trusted: NumPy, rnaverif/geomref.py",
]


def evaluate(s3, model=None):
    import numpy as np
    from rnapolis.annotator import find_stackings

    rr = geomref.from_structure3d(s3, model)
    by_ident = {}
    dup = False
    for r in rr:
        if r.ident in by_ident:
            dup = True
        by_ident[r.ident] = r
    info = {"residues": len(rr), "expected": 0, "one_fail": 0, "reported": 0, "skipped": dup, "min_margin": float("inf")}
    if dup:
        return [], info
    sts = find_stackings(s3, model)
    info["reported"] = len(sts)
    out = []
    reported = {}
    for s in sts:
        r1 = by_ident.get(geomref.identity(s.nt1)[:3])
        r2 = by_ident.get(geomref.identity(s.nt2)[:3])
        if r1 is None or r2 is None:
            out.append(D("C04:participant-not-in-structure", f"{s.nt1.full_name} - {s.nt2.full_name}"))
            continue
        if r1.idx == r2.idx:
            out.append(D("C04:self-stacking", f"{s.nt1.full_name}"))
            continue
        key = (min(r1.idx, r2.idx), max(r1.idx, r2.idx))
        if key in reported:
            out.append(D("C04:pair-reported-twice", f"{s.nt1.full_name} - {s.nt2.full_name}"))
        reported[key] = s
        if not (r1.key < r2.key):
            out.append(D("C04:not-ordered", f"{s.nt1.full_name} listed before {s.nt2.full_name}"))
    # all pairs, centroid prefilter
    cents = {r.idx: geomref.centroid(r) for r in rr}
    have = [r for r in rr if cents[r.idx] is not None]
    if have:
        C = np.array([cents[r.idx] for r in have])
        info["max_neighbours"] = max(int(np.sum(np.linalg.norm(C - C[a], axis=1) <= geomref.ST_MAX)) - 1 for a in range(len(have))) if len(have) <= 200 else -1
        for a in range(len(have)):
            d = np.linalg.norm(C[a + 1:] - C[a], axis=1)
            for off in np.nonzero(d <= geomref.ST_MAX + 0.5)[0]:
                ri, rj = have[a], have[a + 1 + int(off)]  # ri earlier in the structure
                st, same, margin = geomref.expected_stacking(ri, rj)
                info["min_margin"] = min(info["min_margin"], margin)
                key = (ri.idx, rj.idx)
                rep = reported.get(key)
                if st is True:
                    info["expected"] += 1
                    if rep is None:
                        out.append(D("C04:missing-stacking", f"{ri.ident}-{rj.ident} satisfies all three criteria but is not reported"))
                if st is False:
                    info["one_fail"] += 1 if _fails(ri, rj) == 1 else 0
                    if rep is not None:
                        out.append(D("C04:unjustified-stacking", f"{ri.ident}-{rj.ident} reported but fails {_which(ri, rj)}"))
                if rep is not None and same is not None and rep.topology is not None:
                    lab = rep.topology.value
                    if (lab in ("upward", "downward")) != same:
                        out.append(D("C04:wrong-topology", f"{ri.ident}-{rj.ident}: normals {'agree' if same else 'oppose'} but label is {lab}"))
                if rep is not None:
                    reported[key] = None  # consumed
    for key, rep in reported.items():
        if rep is not None:
            # reported pair whose centroids are farther than 6.5 A (never visited above)
            out.append(D("C04:unjustified-stacking", f"{rep.nt1.full_name}-{rep.nt2.full_name} reported but centroids are farther than 6.5 A apart or undefined"))
    return out, info


def _criteria(ri, rj):
    import numpy as np
    ci, cj = geomref.centroid(ri), geomref.centroid(rj)
    ni, nj = geomref.normal(ri), geomref.normal(rj)
    d = float(np.linalg.norm(ci - cj))
    if ni is None or nj is None:
        return None
    a = geomref.angle_deg(ni, nj)
    an = min(a, 180 - a)
    v = ci - cj
    off = min(geomref.angle_deg(v, ni), geomref.angle_deg(v, nj)) if d > 0 else 0.0
    return d, an, off


def _fails(ri, rj):
    c = _criteria(ri, rj)
    if c is None:
        return 3
    d, an, off = c
    return int(d > geomref.ST_MAX) + int(an > geomref.ST_NORMALS) + int(off > geomref.ST_OFFSET)


def _which(ri, rj):
    c = _criteria(ri, rj)
    if c is None:
        return "normals undefined"
    d, an, off = c
    return f"distance {d:.4f} (<=6), normals {an:.3f} deg (<=35), offset {off:.3f} deg (<=45)"


def oracle_multimodel(case):
    from rnaverif.props import c11

    s3 = c11.load_case(case)
    out, infos = [], []
    for m in c11.model_numbers(case):
        ds, info = evaluate(s3, int(str(m)))  # an equal number, not the very object the residues carry
        out += [D(d.sig, f"model {m}: {d.what}") for d in ds]
        infos.append(info)
    case["_info4"] = {k: (min if k == "min_margin" else sum)(i[k] for i in infos) if k != "skipped" else any(i[k] for i in infos)
                      for k in ("residues", "expected", "one_fail", "reported", "skipped", "min_margin")}
    return out


def build_assembly(case):
    import numpy as np
    from rnapolis.tertiary import Structure3D

    s3 = corpus.structure(case["file"])
    P = np.array([[a.x, a.y, a.z] for r in s3.residues for a in r.atoms])
    step = float(P[:, 0].max() - P[:, 0].min()) + 15.0
    residues = []
    for c in range(case["copies"]):
        part = gen3d.rebuild(s3, point_fn=lambda xyz, ri, k, c=c: xyz + np.array([c * step, 0.0, 0.0]),
                             chain_map={ch: f"{ch}{c}" for ch in {r.chain for r in s3.residues}})
        residues += list(part.residues)
    return Structure3D(residues)


def oracle(case):
    if case.get("kind") == "multimodel":
        return oracle_multimodel(case)
    if case.get("kind") == "assembly":
        ds, info = evaluate(build_assembly(case))
        case["_info4"] = info
        return ds
    s3 = c03.load_case(case)
    if case.get("kind") == "steered-stack":
        # self-check of the construction against the reference model: the steered quantity sits where it was put
        rr = geomref.from_structure3d(s3)
        if len(rr) != 2:
            raise HarnessError("steered placement does not have two residues")
        c = _criteria(rr[0], rr[1])
        if c is None:
            raise HarnessError("steered placement lost a normal")
        d, an, off = c
        if case["mode"] == "copy":
            if an > 1e-4 or d > 4.0 or off > 41.0:
                raise HarnessError(f"translated copy is not a clear stacking: distance {d}, normals {an}, offset {off}")
        else:
            want = {"distance": geomref.ST_MAX, "normals": geomref.ST_NORMALS, "offset": geomref.ST_OFFSET}[case["mode"]] + case["side"] * case["delta"]
            got = {"distance": d, "normals": an, "offset": off}[case["mode"]]
            if abs(got - want) > 1e-7:
                raise HarnessError(f"steered {case['mode']} is {got!r}, intended {want!r}")
    ds, info = evaluate(s3)
    case["_info4"] = info
    return ds


def classify(case):
    info = case.get("_info4")
    if info is None:
        return False, [case["kind"]]
    labs = [case["kind"]]
    if info["expected"]:
        labs.append("has-stacking")
    if info["one_fail"]:
        labs.append("candidate-failing-one-criterion")
    if info["min_margin"] <= 0.5:
        labs.append("within-0.5-of-a-threshold")
    return info["expected"] >= 1 and info["one_fail"] >= 1, labs


def plan(tier, seed):
    specs = [sp for sp in c03.base_plan(tier, seed) if sp["kind"] != "steered-hbond"]
    files = corpus.SMALL[:6]
    n, ex = (8, 150) if tier == "quick" else (16, 6000)
    specs += [{"kind": "steered", "files": files, "examples": ex, "seed": seed * 1000 + 400 + k} for k in range(n)]
    n, ex = (4, 40) if tier == "quick" else (8, 1500)
    specs += [{"kind": "crowd", "files": files, "examples": ex, "seed": seed * 1000 + 500 + k} for k in range(n)]
    # structures of dozens to hundreds of bases pulled apart between two stacked residues to 5.5-5.99 A
    n, ex = (4, 40) if tier == "quick" else (8, 1500)
    specs += [{"kind": "pulled-apart", "files": corpus.SMALL[:8] + ["1ehz-assembly-1.cif", "4qln.cif"], "examples": ex, "seed": seed * 1000 + 700 + k} for k in range(n)]
    n, ex = (4, 60) if tier == "quick" else (8, 1500)
    specs += [{"kind": "columns", "files": files, "examples": ex, "seed": seed * 1000 + 750 + k} for k in range(n)]
    # a structure of ribosome size: translated, non-touching copies of a corpus structure as chains of one model (more
    # than 4096 candidate pairs within 6 A) - batching and block-wise processing inside the search act only here
    specs += [{"kind": "assembly", "files": ["6g90_1.cif"], "copies": 12 if tier == "quick" else 20}]
    # several models in one structure object (numbered 1..k, from 0, or otherwise), each annotated by its number
    n, ex = (4, 15) if tier == "quick" else (8, 300)
    specs += [{"kind": "multimodel", "files": corpus.SMALL[:8], "examples": ex, "seed": seed * 1000 + 600 + k} for k in range(n)]
    return specs


def run_shard(spec) -> ShardResult:
    res = ShardResult()
    files = [f for f in spec["files"] if f in corpus.all_files()]
    if spec["kind"] == "files":
        for f in files:
            case = {"kind": "file", "file": f}
            check_case(PROP_ID, oracle, case, res, to_json=c03.to_json)
            nt, labs = classify(case)
            extra = {k: case["_info4"][k] for k in ("residues", "expected", "reported")} if "_info4" in case else {}
            res.note_case({**c03.to_json(case), **extra}, nt, labs)
    elif spec["kind"] == "moved":
        run_hypothesis(PROP_ID, c03.st_moved(files), oracle, seed=spec["seed"], max_examples=spec["examples"], result=res,
                       to_json=c03.to_json, classify=classify)
    elif spec["kind"] == "steered":
        run_hypothesis(PROP_ID, gen3d.st_steered_stack(files), oracle, seed=spec["seed"], max_examples=spec["examples"],
                       result=res, to_json=c03.to_json, classify=classify_steered)
    elif spec["kind"] == "crowd":
        def cl(c):
            nt, labs = classify(c)
            m = (c.get("_info4") or {}).get("max_neighbours", 0)
            return nt, list(labs) + [f"max-centroids-within-6A={'>8' if m > 8 else '5-8' if m > 4 else '<=4'}"]

        run_hypothesis(PROP_ID, gen3d.st_crowd(files), oracle, seed=spec["seed"], max_examples=spec["examples"],
                       result=res, to_json=c03.to_json, classify=cl)
    elif spec["kind"] == "columns":
        run_hypothesis(PROP_ID, gen3d.st_columns(files), oracle, seed=spec["seed"], max_examples=spec["examples"],
                       result=res, to_json=c03.to_json, classify=lambda c: (classify(c)[0], list(classify(c)[1]) + ["four-columns-with-a-gap-inside-6A"]))
    elif spec["kind"] == "pulled-apart":
        run_hypothesis(PROP_ID, gen3d.st_pulled_apart(files), oracle, seed=spec["seed"], max_examples=spec["examples"],
                       result=res, to_json=c03.to_json, classify=lambda c: (classify(c)[0], list(classify(c)[1]) + ["pulled-apart-to-5.5-6A"]))
    elif spec["kind"] == "assembly":
        for f in files:
            case = {"kind": "assembly", "file": f, "copies": spec["copies"]}
            check_case(PROP_ID, oracle, case, res, to_json=c03.to_json)
            nt, labs = classify(case)
            info = case.get("_info4") or {}
            res.note_case({**c03.to_json(case), "residues": info.get("residues"), "expected": info.get("expected")}, nt, list(labs) + ["assembly-of-translated-copies"])
    elif spec["kind"] == "multimodel":
        from rnaverif.props import c11

        run_hypothesis(PROP_ID, c11.st_multimodel(files), oracle, seed=spec["seed"], max_examples=spec["examples"],
                       result=res, to_json=c03.to_json, classify=lambda c: (classify(c)[0], list(classify(c)[1]) + (["models-numbered-from-0"] if (c.get("model_numbers") or [1])[0] == 0 else [])))
    elif spec["kind"] == "mini":
        run_hypothesis(PROP_ID, gen3d.st_mini(files), oracle, seed=spec["seed"], max_examples=spec["examples"],
                       result=res, to_json=c03.to_json, classify=classify)
    else:
        raise HarnessError(spec["kind"])
    res.exhaustive = False
    return res


def classify_steered(case):
    nt, labs = classify(case)
    info = case.get("_info4") or {}
    labs = list(labs) + [f"steered-{case['mode']}", f"delta={case['delta']:g}", "above" if case["side"] > 0 else "below"]
    # the construction is checked against the reference model: the steered quantity must sit where it was put
    return True, labs


def replay(case):
    return oracle(dict(case))
