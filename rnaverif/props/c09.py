"""C09 - PDB/mmCIF write-read round trips preserve every atom field."""

from __future__ import annotations

import math

from rnaverif import atomtab
from rnaverif.runner import D, HarnessError, ShardResult, run_hypothesis

PROP_ID = "C09"
LEVEL = "exploration"
RULE = (
    "Hypothesis atom tables within PDB limits (1-4 character atom names incl. primes, double primes and leading "
    "digits, 1-2 letter or absent elements, charges -2..+3, insertion codes, altlocs, negative coordinates and "
    "numbers, 1-3 models, 1-3 chains, HETATM records) emitted by the harness's own PDB and mmCIF emitters. Oracle: "
    "(1) reader fidelity - parse_pdb_atoms / parse_cif_atoms of the emitted text equal the table on the 16 logical "
    "fields through a neutral accessor (charge normalised to a signed integer); (2) the four round trips PDB->PDB, "
    "mmCIF->mmCIF, PDB->mmCIF->PDB and mmCIF->PDB->mmCIF are the identity on those fields and on row order "
    "(tolerance 5e-4 on coordinates, 5e-3 on occupancy/B); (3) every written PDB text is decoded by the harness's "
    "column slicer: ATOM/HETATM/TER records exactly 80 columns with every field in its columns, record grammar "
    "(MODEL n (atoms-of-a-chain TER)+ ENDMDL)* END with a TER after every chain run including the last chain of "
    "every model. Non-trivial: table with a 4-character name, 2-letter element, non-zero charge, quote in a name, "
    "altloc, icode, >=2 models, >=2 chains or a negative number; distinct = distinct table. An mmCIF dialect of the same table (item order permuted; label_entity_id / auth_atom_id / auth_comp_id left out) is read and written too. Also the splitter command line "
    "(PDB or mmCIF input, output format keep/PDB/mmCIF): one file per model holding exactly that model's atoms on all "
    "fields, written PDB obeying the layout."
)
ASSUMPTIONS = [
    "tables are within PDB field widths (the property's quantifier); serial numbers restart per model as in real files",
    "numeric tolerances 5e-4 (coordinates) and 5e-3 (occupancy, B); generated values have 3 / 2 decimals",
    "trusted: harness emitters/decoders in rnaverif/atomtab.py (self-checked against each other on every case)",
]

CMP = ["record", "serial", "name", "altloc", "resname", "chain", "resseq", "icode", "x", "y", "z", "occ", "bfac",
       "element", "charge", "model"]


def _s(v):
    import pandas as pd

    if v is None:
        return ""
    try:
        if pd.isna(v):
            return ""
    except (TypeError, ValueError):
        pass
    return str(v)


def _charge(v):
    s = _s(v).strip()
    if not s:
        return 0
    c = atomtab.decode_pdb_charge(s)
    if c is not None:
        return c
    try:
        return int(float(s))
    except ValueError:
        return ("unreadable", s)


def _i(v):
    """integer field of a frame the library produced; a value that is no integer (NaN from a record the reader could not
    make sense of, text) is kept as a marker so that it shows as a field difference, never as a harness failure"""
    try:
        return int(v)
    except (TypeError, ValueError):
        try:
            return int(str(v).strip())
        except (TypeError, ValueError):
            return ("not-an-integer", _s(v))


def _f(v):
    try:
        x = float(v)
    except (TypeError, ValueError):
        return ("not-a-number", _s(v))
    return x if x == x else ("not-a-number", "nan")


def unreadable(rows):
    """description of the first field of a logical table that holds a marker for an unreadable value, or None"""
    for k, r in enumerate(rows):
        for f, v in r.items():
            if isinstance(v, tuple) and v and v[0] in ("not-an-integer", "not-a-number", "unreadable"):
                return f"row {k}: field {f} is {v[1]!r}"
    return None


def logical(df):
    """neutral accessor: list of logical atoms from a parser_v2 DataFrame"""
    fmt = df.attrs.get("format")
    rows = []
    for _, r in df.iterrows():
        if fmt == "PDB":
            rows.append({
                "record": _s(r.get("record_type")), "serial": _i(r.get("serial")), "name": _s(r.get("name")),
                "altloc": _s(r.get("altLoc")), "resname": _s(r.get("resName")), "chain": _s(r.get("chainID")),
                "resseq": _i(r.get("resSeq")), "icode": _s(r.get("iCode")), "x": _f(r.get("x")), "y": _f(r.get("y")),
                "z": _f(r.get("z")), "occ": _f(r.get("occupancy")), "bfac": _f(r.get("tempFactor")),
                "element": _s(r.get("element")), "charge": _charge(r.get("charge")), "model": _i(r.get("model")),
            })
        elif fmt == "mmCIF":
            name = _s(r.get("auth_atom_id")) or _s(r.get("label_atom_id"))
            rows.append({
                "record": _s(r.get("group_PDB")), "serial": _i(_s(r.get("id"))), "name": name,
                "altloc": _s(r.get("label_alt_id")), "resname": _s(r.get("auth_comp_id")) or _s(r.get("label_comp_id")),
                "chain": _s(r.get("auth_asym_id")) or _s(r.get("label_asym_id")),
                "resseq": _i(_s(r.get("auth_seq_id")) or _s(r.get("label_seq_id"))), "icode": _s(r.get("pdbx_PDB_ins_code")),
                "x": _f(r.get("Cartn_x")), "y": _f(r.get("Cartn_y")), "z": _f(r.get("Cartn_z")),
                "occ": _f(r.get("occupancy")), "bfac": _f(r.get("B_iso_or_equiv")),
                "element": _s(r.get("type_symbol")), "charge": _charge(r.get("pdbx_formal_charge")),
                # a table without the model item holds a single model; the writers call it model 1
                "model": _i(r.get("pdbx_PDB_model_num")) if "pdbx_PDB_model_num" in df.columns else 1,
            })
        else:
            raise HarnessError(f"unknown frame format {fmt!r}")
    return rows


def same(a, b, f):
    if isinstance(a, tuple) or isinstance(b, tuple) or a is None or b is None:
        return a == b  # a marker for an unreadable value equals nothing but itself
    if f in ("x", "y", "z"):
        return abs(a - b) <= 5e-4
    if f in ("occ", "bfac"):
        return abs(a - b) <= 5e-3
    return a == b


def diff_tables(tag, want, got, single_model):
    out = []
    if len(want) != len(got):
        return [D(f"C09:{tag}:row-count", f"{len(got)} rows instead of {len(want)}")]
    for k, (a, b) in enumerate(zip(want, got)):
        for f in CMP:
            if not same(a[f], b[f], f):
                # a row-order problem shows up as several identity fields differing at once
                ident = ("name", "resseq", "chain", "serial")
                if sum(1 for g in ident if a[g] != b[g]) >= 2 and sorted(map(lambda r: (str(r["model"]), str(r["serial"])), want)) == sorted(map(lambda r: (str(r["model"]), str(r["serial"])), got)):
                    out.append(D(f"C09:{tag}:row-order", f"row {k}: expected serial {a['serial']} got {b['serial']}"))
                else:
                    out.append(D(f"C09:{tag}:field:{f}", f"row {k} ({a['name']} {a['chain']}{a['resseq']}{a['icode']} model {a['model']}): {f} {a[f]!r} became {b[f]!r}"))
                break
        if out:
            break
    return out


def check_pdb_layout(tag, text, want):
    """layout + record grammar of a PDB text written by rnapolis for the table `want`"""
    out = []
    dec = atomtab.decode_pdb(text)
    for p in dec["problems"][:1]:
        out.append(D(f"C09:{tag}:layout", p))
    kinds = [k for k, _ in dec["records"]]
    lines = [l for _, l in dec["records"]]
    models = []
    for a in want:
        if a["model"] not in models:
            models.append(a["model"])
    # expected grammar
    exp = []
    for m in models:
        exp.append("MODEL")
        prev = None
        for a in [x for x in want if x["model"] == m]:
            if prev is not None and prev["chain"] != a["chain"]:
                exp.append("TER")
            exp.append(a["record"])
            prev = a
        exp.append("TER")
        exp.append("ENDMDL")
    exp.append("END")
    got = [k for k in kinds if k]
    if got != exp:
        # tolerate absence of MODEL/ENDMDL for single-model tables only if consistently absent
        alt = [k for k in exp if k not in ("MODEL", "ENDMDL")] if len(models) == 1 else None
        if alt is None or got != alt:
            # locate first difference
            pos = next((i for i, (x, y) in enumerate(zip(got, exp)) if x != y), min(len(got), len(exp)))
            ctx = f"record #{pos}: got {got[pos] if pos < len(got) else 'EOF'}, expected {exp[pos] if pos < len(exp) else 'EOF'}"
            kind = "missing-TER" if (pos < len(exp) and exp[pos] == "TER") else "grammar"
            out.append(D(f"C09:{tag}:records:{kind}", f"PDB record sequence wrong at {ctx}"))
    for k, l in dec["records"]:
        if k == "TER" and len(l) != 80:
            out.append(D(f"C09:{tag}:layout", f"TER record of {len(l)} columns"))
            break
    if not text.endswith("\n"):
        out.append(D(f"C09:{tag}:layout", "no final newline"))
    return out


def renumber_models(atoms, numbers):
    """models keep their place in the table but carry the drawn numbers (ranked ensembles keep the original model
    numbers: 3, 1, 2; selections: 7, 2): the MODEL serial is a label, nothing says it ascends"""
    if not numbers:
        return atoms
    present = []
    for a in atoms:
        if a["model"] not in present:
            present.append(a["model"])
    ren = {m: numbers[k % len(numbers)] + (0 if k < len(numbers) else 100 * (k // len(numbers))) for k, m in enumerate(present)}
    return [dict(a, model=ren[a["model"]]) for a in atoms]


def oracle(case):
    import io
    from rnapolis.parser_v2 import parse_cif_atoms, parse_pdb_atoms, write_cif, write_pdb

    atoms = big_table(*case["big"]) if case.get("big") else renumber_models(case["atoms"], case.get("model_numbers"))
    single = len({a["model"] for a in atoms}) == 1
    pdb_text = atomtab.emit_pdb(atoms, always_model=True)
    cif_text = atomtab.emit_cif(atoms, case.get("null", "?"))
    out = []
    # harness self-check
    back = atomtab.decode_pdb(pdb_text)
    if back["problems"] or len(back["atoms"]) != len(atoms):
        raise HarnessError(f"emitter self-check failed: {back['problems'][:2]}")
    # (1) reader fidelity
    df_p = parse_pdb_atoms(pdb_text)
    out += diff_tables("read-pdb", atoms, logical(df_p), single)
    df_c = parse_cif_atoms(cif_text)
    out += diff_tables("read-cif", atoms, logical(df_c), single)
    if out:
        return out
    # (2) round trips
    t = write_pdb(df_p)
    out += check_pdb_layout("pdb->pdb", t, atoms)
    out += diff_tables("pdb->pdb", atoms, logical(parse_pdb_atoms(t)), single)
    c = write_cif(df_c)
    out += diff_tables("cif->cif", atoms, logical(parse_cif_atoms(c)), single)
    c2 = write_cif(df_p)
    df_pc = parse_cif_atoms(c2)
    out += diff_tables("pdb->cif", atoms, logical(df_pc), single)
    t2 = write_pdb(df_pc)
    out += check_pdb_layout("pdb->cif->pdb", t2, atoms)
    out += diff_tables("pdb->cif->pdb", atoms, logical(parse_pdb_atoms(t2)), single)
    t3 = write_pdb(df_c)
    out += check_pdb_layout("cif->pdb", t3, atoms)
    df_cp = parse_pdb_atoms(t3)
    out += diff_tables("cif->pdb", atoms, logical(df_cp), single)
    c3 = write_cif(df_cp)
    out += diff_tables("cif->pdb->cif", atoms, logical(parse_cif_atoms(c3)), single)
    # an mmCIF dialect of the same table: item order permuted, items left out that carry none of the compared fields
    dia = case.get("dialect")
    if dia:
        if dia.get("label_alias") and {"auth_atom_id", "auth_comp_id"} & set(dia.get("drop", [])):
            dia = dict(dia, label_alias=False)  # the names live in the label items then: they must stay as given
        # optional items may be left out where their absence has one reading: no insertion code / alternate location
        # anywhere, a single model numbered 1; without the element / charge items the fields read as empty / 0
        drop = [d for d in dia.get("drop", []) if not ((d == "pdbx_PDB_ins_code" and any(a["icode"] for a in atoms))
                                                       or (d == "label_alt_id" and any(a["altloc"] for a in atoms))
                                                       or (d == "pdbx_PDB_model_num" and (not single or atoms[0]["model"] != 1)))]
        dia = dict(dia, drop=drop)
        want_d = [dict(a, element="" if "type_symbol" in drop else a["element"], charge=0 if "pdbx_formal_charge" in drop else a["charge"]) for a in atoms]
        dtext = atomtab.emit_cif(atoms, case.get("null", "?"), dialect=dia)
        df_d = parse_cif_atoms(dtext)
        out += diff_tables("read-cif-dialect", want_d, logical(df_d), single)
        if not out:
            out += diff_tables("cif-dialect->cif", want_d, logical(parse_cif_atoms(write_cif(df_d))), single)
            t4 = write_pdb(df_d)
            out += check_pdb_layout("cif-dialect->pdb", t4, want_d)
            out += diff_tables("cif-dialect->pdb", want_d, logical(parse_pdb_atoms(t4)), single)
    # file-object and path outputs agree with the returned string
    buf = io.StringIO()
    write_pdb(df_p, buf)
    if buf.getvalue() != t:
        out.append(D("C09:write_pdb:file-object-differs", "write_pdb(df, file) differs from write_pdb(df)"))
    # ... and a buffer that was just written is read back as it stands (its cursor at the end, as after writing)
    if not out and not case.get("big"):
        for tag, writer, reader, df in (("pdb", write_pdb, parse_pdb_atoms, df_p), ("cif", write_cif, parse_cif_atoms, df_c)):
            b2 = io.StringIO()
            writer(df, b2)
            try:
                back2 = logical(reader(b2))
            except Exception as e:
                from rnaverif.runner import sut_location
                out.append(D(f"C09:{tag}-buffer:raises:{type(e).__name__}@{sut_location(e.__traceback__)}", f"reading the buffer just written: {type(e).__name__}: {str(e)[:120]}"))
                continue
            out += diff_tables(f"{tag}->buffer->{tag}", atoms, back2, single)
    seen, res = set(), []
    for d in out:
        if d.sig not in seen:
            seen.add(d.sig)
            res.append(d)
    return res


def oracle_splitter(case):
    """splitter.main: one output file per model holding exactly that model's atoms (all 16 fields), in any output format"""
    import contextlib
    import io
    import os
    import shutil
    import sys

    import rnapolis.splitter as sp
    from rnapolis.parser_v2 import parse_cif_atoms, parse_pdb_atoms
    from rnaverif.runner import WORK_DIR

    atoms = case["atoms"]
    fmt_in, fmt_out = case["format_in"], case["format_out"]
    if case.get("running_ids") and fmt_in != "PDB":
        # atom ids that run on from model to model (60000 per model): later models exceed the PDB serial width, the
        # first ones do not - every model that fits must still come out unchanged
        atoms = [dict(a, serial=a["serial"] + 60000 * (a["model"] - 1)) for a in atoms]
    atoms = renumber_models(atoms, case.get("model_numbers"))
    os.makedirs(WORK_DIR, exist_ok=True)
    base = os.path.join(WORK_DIR, f"c09split_{os.getpid()}")
    shutil.rmtree(base, ignore_errors=True)
    os.makedirs(base)
    src = os.path.join(base, "input." + ("pdb" if fmt_in == "PDB" else "cif"))
    with open(src, "w") as f:
        f.write(atomtab.emit_pdb(atoms, always_model=True) if fmt_in == "PDB" else atomtab.emit_cif(atoms, case.get("null", "?")))
    outdir = os.path.join(base, "out")
    out = []
    old = sys.argv
    buf, err = io.StringIO(), io.StringIO()
    try:
        sys.argv = ["splitter", "-o", outdir, "-f", fmt_out, src]
        try:
            with contextlib.redirect_stdout(buf), contextlib.redirect_stderr(err):
                sp.main()
        except SystemExit as e:
            if e.code not in (0, None):
                return [D("C09:splitter:exit", f"splitter exited with {e.code}: {err.getvalue()[-200:]}")]
        models = []
        for a in atoms:
            if a["model"] not in models:
                models.append(a["model"])
        eff = fmt_in if fmt_out.lower() == "keep" else ("PDB" if fmt_out.upper() == "PDB" else "mmCIF")
        for m in models:
            path = os.path.join(outdir, f"input_model_{m}." + ("pdb" if eff == "PDB" else "cif"))
            want = [a for a in atoms if a["model"] == m]
            if eff == "PDB" and any(a["serial"] > 99999 for a in want):
                continue  # does not fit PDB widths: renumbering is C10's subject
            if not os.path.exists(path):
                out.append(D("C09:splitter:model-file-missing", f"no output for model {m} ({fmt_in} -> {fmt_out}); stderr: {err.getvalue()[-200:]}"))
                continue
            with open(path) as f:
                text = f.read()
            got = logical(parse_pdb_atoms(text) if eff == "PDB" else parse_cif_atoms(text))
            out += diff_tables(f"splitter:{fmt_in}->{eff}", want, got, True)
            if eff == "PDB":
                out += check_pdb_layout(f"splitter:{fmt_in}->PDB", text, want)
        extra = sorted(set(os.listdir(outdir)) - {f"input_model_{m}." + ("pdb" if eff == "PDB" else "cif") for m in models}) if os.path.isdir(outdir) else []
        if extra:
            out.append(D("C09:splitter:unexpected-files", f"{extra[:3]}"))
    finally:
        sys.argv = old
        shutil.rmtree(base, ignore_errors=True)
    seen, res = set(), []
    for d in out:
        if d.sig not in seen:
            seen.add(d.sig)
            res.append(d)
    return res


def classify(case):
    atoms = case["atoms"]
    labs = []
    if any(len(a["name"]) == 4 for a in atoms):
        labs.append("4-char-name")
    if any(len(a["element"]) == 2 for a in atoms):
        labs.append("2-letter-element")
    if any(a["charge"] for a in atoms):
        labs.append("charge")
    if any("'" in a["name"] for a in atoms):
        labs.append("quote-in-name")
    if any(a["altloc"] for a in atoms):
        labs.append("altloc")
    if any(a["icode"] for a in atoms):
        labs.append("icode")
    if len({a["model"] for a in atoms}) >= 2:
        labs.append("models>=2")
        if case.get("model_numbers") and case["model_numbers"][:2] != sorted(case["model_numbers"][:2]):
            labs.append("model-numbers-not-ascending")
    if len({a["chain"] for a in atoms}) >= 2:
        labs.append("chains>=2")
    if any(a["resseq"] < 0 or a["x"] < 0 for a in atoms):
        labs.append("negative")
    if any(not a["element"] for a in atoms):
        labs.append("element-absent")
    if case.get("dialect"):
        labs.append("cif-dialect")
    return bool(labs), labs


def big_table(n_atoms, n_chains=3, n_models=1):
    """a table of n_atoms records per model (residues of 23 atoms, chains of equal share): well inside the PDB limits
    but far larger than a drawn table - block-wise writing, buffering and per-N-records logic act only here"""
    names = ["P", "OP1", "OP2", "O5'", "C5'", "C4'", "O4'", "C3'", "O3'", "C2'", "O2'", "C1'", "N9", "C8", "N7", "C5", "C6", "O6", "N1", "C2", "N2", "N3", "C4"]
    atoms = []
    for m in range(1, n_models + 1):
        serial = 1
        per_chain = (n_atoms + n_chains - 1) // n_chains
        for k in range(n_atoms):
            c = k // per_chain
            r, a = divmod(k % per_chain, len(names))
            nm = names[a]
            atoms.append({"record": "ATOM", "serial": serial, "name": nm, "altloc": "", "resname": "G", "chain": "ABCDEFGH"[c],
                          "resseq": r + 1, "icode": "", "x": round((k % 97) * 1.5 + 0.123, 3), "y": round(((k // 97) % 97) * 1.5 - 7.5, 3),
                          "z": round((k // 9409) * 1.5 + 0.5 * m, 3), "occ": 1.0, "bfac": round((k % 500) / 10.0, 2),
                          "element": atomtab.element_of(nm), "charge": 0, "model": m})
            serial += 1
    return atoms


def _model_numbers():
    from hypothesis import strategies as st

    return st.sampled_from([None, None, None, [3, 1, 2], [2, 1, 3], [7, 2, 5], [10, 20, 30], [1, 3, 2], [5], [0, 1, 2],
                            [300, 301, 302], [256, 257, 258], [998, 999, 1000], [9997, 9998, 9999]])


def st_cases():
    from hypothesis import strategies as st

    MODEL_NUMBERS = _model_numbers()

    dialect = st.one_of(st.none(), st.fixed_dictionaries({
        "drop": st.lists(st.sampled_from(["label_entity_id", "auth_atom_id", "auth_comp_id", "pdbx_PDB_ins_code", "label_alt_id", "pdbx_PDB_model_num",
                                          "type_symbol", "pdbx_formal_charge"]), max_size=4, unique=True),
        "order": st.one_of(st.none(), st.integers(0, 10 ** 6)), "label_alias": st.booleans(),
        # numbers spelt as the CIF grammar allows besides fixed point (1.2345e+01, 1.2345E1, +12.345, 12.34500)
        "numbers": st.sampled_from([None, None, 0, 1, 3])}))
    return st.fixed_dictionaries({"atoms": atomtab.st_tables(max_residues=4, max_atoms=6, shared_positions=True), "null": st.sampled_from(["?", "."]), "dialect": dialect,
                                  "model_numbers": MODEL_NUMBERS})


def plan(tier, seed):
    if tier == "quick":
        return [{"kind": "tables", "examples": 50, "seed": seed * 1000 + k} for k in range(13)] + \
               [{"kind": "splitter", "examples": 25, "seed": seed * 1000 + 100 + k} for k in range(4)] + \
               [{"kind": "big", "atoms": 10400, "chains": 3, "models": 1}, {"kind": "big", "atoms": 27000, "chains": 2, "models": 2}]
    return [{"kind": "tables", "examples": 1200, "seed": seed * 1000 + k} for k in range(16)] + \
           [{"kind": "splitter", "examples": 800, "seed": seed * 1000 + 100 + k} for k in range(8)] + \
           [{"kind": "big", "atoms": n, "chains": c, "models": m} for n, c, m in ((10400, 3, 1), (20001, 2, 1), (10000, 1, 1), (10001, 4, 2), (33000, 5, 1),
                                                                                                  # ensembles whose PDB text runs to 54 000-140 000 lines (serials restart in every model)
                                                                                                  (27000, 2, 2), (24990, 3, 4), (70000, 4, 2))]


def run_shard(spec) -> ShardResult:
    res = ShardResult()
    if spec["kind"] == "big":
        from rnaverif.runner import check_case

        case = {"big": [spec["atoms"], spec["chains"], spec["models"]]}
        check_case(PROP_ID, oracle, case, res)
        res.note_case(case, True, [f"table-of-{spec['atoms'] // 10000 * 10000}+-atoms-per-model"] + ([f"pdb-text-of-{spec['atoms'] * spec['models'] // 10000 * 10000}+-lines-in-{spec['models']}-models"] if spec["models"] > 1 else []))
        res.exhaustive = False
        return res
    if spec["kind"] == "splitter":
        from hypothesis import strategies as st

        strat = st.fixed_dictionaries({"atoms": atomtab.st_tables(max_residues=3, max_atoms=4), "null": st.sampled_from(["?", "."]),
                                       "format_in": st.sampled_from(["PDB", "mmCIF"]), "running_ids": st.booleans(), "model_numbers": _model_numbers(),
                                       "format_out": st.sampled_from(["keep", "PDB", "mmCIF", "pdb", "mmcif"])})
        run_hypothesis(PROP_ID, strat, oracle_splitter, seed=spec["seed"], max_examples=spec["examples"], result=res,
                       classify=lambda c: (len({a["model"] for a in c["atoms"]}) >= 2, ["splitter", f"{c['format_in']}->{c['format_out'].lower()}"] + (["splitter-running-ids"] if c.get("running_ids") and c["format_in"] != "PDB" else [])),
                       sample_cap=1)
        res.exhaustive = False
        return res
    run_hypothesis(PROP_ID, st_cases(), oracle, seed=spec["seed"], max_examples=spec["examples"], result=res,
                   classify=classify, sample_cap=1)
    res.extra["round_trip_paths_per_table"] = 0
    res.exhaustive = False
    return res


def replay(case):
    if "format_in" in case:
        return oracle_splitter(case)
    return oracle(case)
