"""C12 - secondary-structure objects are pure: queries and derivations never change them."""

from __future__ import annotations

from rnaverif import ssref
from rnaverif.runner import (D, HarnessError, ShardResult, exception_discrepancy, known_signatures)

PROP_ID = "C12"
LEVEL = "exploration"
RULE = (
    "Hypothesis RuleBasedStateMachine. @initialize draws a structure (blow-up generator of C01: any crossing "
    "pattern, stems 1-4, many length-1 stems so that removals do remove) and builds the receiver from its BPSEQ "
    "text. Rules, one per public query/derivation: str, pairs, sequence, dot_bracket, fcfs, all_dot_brackets, "
    "elements, without_pseudoknots, without_isolated, convert_to_dot_bracket(CBC); a further rule adds "
    "a relettered TWIN (same pairing, other letters) as an independent live object - each on any live object (the source or any object derived "
    "from it). Oracle after every step: (1) the answer equals the answer of a FRESH object built from the "
    "receiver's snapshot text with only that one call; (2) invariant: every live object's text, pairs and entries "
    "still equal its snapshot; (3) semantics of both removals from an independent stem finder / decoder. A history "
    "is non-trivial when a removal that really removes pairs is followed by >=1 further call on the same receiver; "
    "distinct = distinct (structure, call sequence)."
)
ASSUMPTIONS = [
    "call sequences up to 6 (quick) / 10 (thorough) steps",
    "dot_bracket answers that differ from the fresh object's but are lossless with the same score are counted as solver ties, not violations (none observed)",
    "trusted: Hypothesis stateful engine, rnaverif/ssref.py",
]

METHODS = ["str", "pairs", "sequence", "dot_bracket", "fcfs", "all_dot_brackets", "elements",
           "without_pseudoknots", "without_isolated", "convert_cbc", "convert_none", "twin"]


def _pairs_of_text(text):
    ps = []
    for line in text.splitlines():
        i, _, j = line.split()
        if int(j) > int(i):
            ps.append((int(i), int(j)))
    return ps


def _elements_repr(el):
    return [[str(x) for x in part] for part in el]


def _db(d):
    """everything a returned dot-bracket object says: letters, brackets and the pairs it decodes itself to"""
    return [d.sequence, d.structure, sorted(list(p) for p in d.pairs)]


def _call(obj, method):
    if method == "str":
        return str(obj)
    if method == "pairs":
        return sorted(obj.pairs.items())
    if method == "sequence":
        return obj.sequence
    if method == "dot_bracket":
        return _db(obj.dot_bracket)
    if method == "fcfs":
        return _db(obj.fcfs)
    if method == "convert_cbc":
        import pulp

        return _db(obj.convert_to_dot_bracket(pulp.PULP_CBC_CMD(msg=False)))
    if method == "convert_none":
        # the documented no-solver call: answers the first-come-first-served notation, and is a query like the others
        return _db(obj.convert_to_dot_bracket(None))
    if method == "all_dot_brackets":
        return sorted(_db(d) for d in obj.all_dot_brackets)
    if method == "elements":
        return _elements_repr(obj.elements)
    if method == "without_pseudoknots":
        return obj.without_pseudoknots()
    if method == "without_isolated":
        return obj.without_isolated()
    raise HarnessError(method)


class History:
    """Replays a call history against the real code and a model of snapshots."""

    def __init__(self, seq, pairs):
        from rnapolis.common import BpSeq

        self.BpSeq = BpSeq
        self.seq = seq
        self.text0 = ssref.bpseq_text(seq, pairs)
        self.objects = [BpSeq.from_string(self.text0)]
        self.snap = [self.text0]
        self.steps = []
        self.removed_on = {}  # receiver index -> a real removal happened
        self.nontrivial = False
        self.ties = 0

    def step(self, idx, method):
        idx = idx % len(self.objects)
        self.steps.append([idx, method])
        out = []
        recv = self.objects[idx]
        snap = self.snap[idx]
        if method == "twin":
            # a second, independent object with the same pairing but other letters enters the history: answers of
            # either must not leak into the other (caches keyed by the pairing alone)
            rot = {"A": "C", "C": "G", "G": "U", "U": "A"}
            lines = []
            for ln in snap.splitlines():
                i, c, j = ln.split()
                lines.append(f"{i} {rot.get(c.upper(), 'A')} {j}")
            text = "\n".join(lines)
            self.objects.append(self.BpSeq.from_string(text))
            self.snap.append(text)
            self.twins = getattr(self, "twins", 0) + 1
            return self.invariant()
        if self.removed_on.get(idx):
            self.nontrivial = True
        fresh = self.BpSeq.from_string(snap)
        ans = _call(recv, method)
        exp = _call(fresh, method)
        pairs = _pairs_of_text(snap)
        seq = "".join(l.split()[1] for l in snap.splitlines())
        if method in ("without_pseudoknots", "without_isolated"):
            if not hasattr(ans, "entries"):
                return [D(f"C12:{method}:not-a-structure", f"{method} returned {type(ans).__name__}")]
            got = sorted(_pairs_of_text(str(ans)))
            gseq = "".join(l.split()[1] for l in str(ans).splitlines()) if str(ans) else ""
            if str(ans) != str(exp):
                out.append(D(f"C12:{method}:differs-from-fresh", f"after {self.steps}: {got} vs fresh {sorted(_pairs_of_text(str(exp)))}"))
            if method == "without_pseudoknots":
                db = fresh.dot_bracket.structure
                want = sorted((i, j) for i, j, lev in ssref.decode(db) if lev == 0)
            else:
                want = []
                for i, j, k in ssref.stems(pairs):
                    if k >= 2:
                        want += [(i + t, j - t) for t in range(k)]
                want.sort()
            if got != want:
                out.append(D(f"C12:{method}:wrong-pairs", f"{method} of {sorted(pairs)} gave {got}, expected {want}"))
            if gseq != seq:
                out.append(D(f"C12:{method}:sequence-changed", f"{gseq!r} != {seq!r}"))
            if dict(ans.pairs) != {a: b for i, j in got for a, b in ((i, j), (j, i))}:
                out.append(D(f"C12:{method}:result-pairs-attr", "result's .pairs disagrees with its own text"))
            if len(got) < len(pairs):
                self.removed_on[idx] = True
            self.objects.append(ans)
            self.snap.append(str(ans))
        elif method in ("dot_bracket", "convert_cbc") and ans != exp:
            # tolerate a solver tie: both lossless and equally good
            ok = False
            try:
                st, g, _ = ssref.describe(seq, pairs)
                la = ssref.stem_levels_from_structure(ans[1], st)
                le = ssref.stem_levels_from_structure(exp[1], st)
                ok = (la is not None and le is not None and ssref.is_proper(la, g) and ssref.is_proper(le, g)
                      and ssref.score(la, st) == ssref.score(le, st)
                      and sorted((i, j) for i, j, _ in ssref.decode(ans[1])) == sorted(pairs) and ans[0] == seq)
            except Exception:
                ok = False
            if ok:
                self.ties += 1
            else:
                out.append(D(f"C12:{method}:differs-from-fresh", f"after {self.steps}: {ans} vs fresh {exp}"))
        elif ans != exp:
            out.append(D(f"C12:{method}:differs-from-fresh", f"after {self.steps}: {str(ans)[:120]} vs fresh {str(exp)[:120]}"))
        out += self.invariant()
        return out

    def invariant(self):
        out = []
        for k, (obj, snap) in enumerate(zip(self.objects, self.snap)):
            if str(obj) != snap:
                out.append(D("C12:mutated:text", f"object #{k} text changed after {self.steps}: now pairs {sorted(_pairs_of_text(str(obj)))}, was {sorted(_pairs_of_text(snap))}"))
                continue
            want = {}
            for i, j in _pairs_of_text(snap):
                want[i] = j
                want[j] = i
            if dict(obj.pairs) != want:
                out.append(D("C12:mutated:pairs", f"object #{k} .pairs changed after {self.steps}"))
            ent = [(e.index_, e.sequence, e.pair) for e in obj.entries]
            if "\n".join(f"{a} {b} {c}" for a, b, c in ent) != snap:
                out.append(D("C12:mutated:entries", f"object #{k} entries changed after {self.steps}"))
        return out


def replay(case):
    seq, pairs, steps = case["seq"], [tuple(p) for p in case["pairs"]], case["steps"]
    h = History(seq, pairs)
    out = []
    for idx, method in steps:
        out += h.step(idx, method)
    return out


def plan(tier, seed):
    if tier == "quick":
        return [{"kind": "machine", "examples": 100, "steps": 6, "seed": seed * 1000 + k} for k in range(16)]
    return [{"kind": "machine", "examples": 1000, "steps": 10, "seed": seed * 1000 + k} for k in range(16)]


def run_shard(spec) -> ShardResult:
    import hypothesis
    from hypothesis import HealthCheck, Phase, settings, strategies as st
    from hypothesis.stateful import RuleBasedStateMachine, initialize, rule, run_state_machine_as_test

    res = ShardResult()
    known = set(known_signatures(PROP_ID))
    excluded = set()
    state = {"first": True}

    class _Fail(Exception):
        pass

    # mostly drawn small structures; sometimes five or six mutually crossing stems (the notation then needs letter
    # brackets) or a chain of kissing helices
    small = st.one_of(ssref.st_structures(max_abstract=6, max_stem=4, max_gap=3, min_abstract=1),
                      ssref.st_structures(max_abstract=6, max_stem=4, max_gap=3, min_abstract=1),
                      ssref.st_structures(max_abstract=6, max_stem=4, max_gap=3, min_abstract=1),
                      st.sampled_from([ssref.ladder(5, 1, 1), ssref.ladder(5, 2, 0), ssref.ladder(6, 2, 1), ssref.kissing_chain(4, [2, 3, 2, 3])]))

    for attempt in range(4):
        last = {}

        class Machine(RuleBasedStateMachine):
            def __init__(self):
                super().__init__()
                self.h = None

            @initialize(s=small, pad=st.sampled_from([0, 0, 0, 0, 260, 300]))
            def init(self, s, pad):
                # pad: the structure sits behind a long unpaired 5' tail, so that its positions pass 256 (long RNAs)
                if pad:
                    s = (ssref.seq_for(pad, 3) + s[0], tuple((i + pad, j + pad) for i, j in s[1]))
                    self.padded = True
                self.h = History(s[0], list(s[1]))

            @rule(idx=st.integers(0, 7), method=st.sampled_from(METHODS))
            def call(self, idx, method):
                if method == "all_dot_brackets":
                    # keep the factorial enumeration small
                    snap = self.h.snap[idx % len(self.h.objects)]
                    _, _, comps = ssref.describe("", _pairs_of_text(snap))
                    if any(len(c) > 6 for c in comps):
                        method = "fcfs"
                try:
                    ds = self.h.step(idx, method)
                except HarnessError:
                    raise
                except Exception as exc:
                    ds = [exception_discrepancy(PROP_ID, exc)]
                fresh = []
                for d in ds:
                    if d.sig in known:
                        if state["first"]:
                            res.known_hits[d.sig] += 1
                    elif d.sig not in excluded:
                        fresh.append(d)
                if fresh:
                    last["case"] = {"seq": self.h.seq, "pairs": [list(p) for p in _pairs_of_text(self.h.text0)],
                                    "steps": [list(s) for s in self.h.steps]}
                    last["d"] = fresh[0]
                    raise _Fail(fresh[0].sig)

            def teardown(self):
                if self.h is not None and state["first"]:
                    case = {"seq": self.h.seq, "pairs": [list(p) for p in _pairs_of_text(self.h.text0)],
                            "steps": [list(s) for s in self.h.steps]}
                    labs = ["removal-then-query"] if self.h.nontrivial else []
                    labs += [f"steps={min(len(self.h.steps), 8)}"]
                    if len(self.h.objects) > 1:
                        labs.append("derived-objects")
                    if getattr(self, "padded", False):
                        labs.append("positions-beyond-256")
                    if getattr(self.h, "twins", 0):
                        labs.append("relettered-twin-object")
                    res.note_case(case, self.h.nontrivial, labs)
                    res.extra["steps"] = res.extra.get("steps", 0) + len(self.h.steps)
                    res.extra["solver_ties"] = res.extra.get("solver_ties", 0) + self.h.ties

        M = hypothesis.seed(spec["seed"] + attempt * 7919)(Machine)
        try:
            run_state_machine_as_test(M, settings=settings(
                max_examples=spec["examples"], stateful_step_count=spec["steps"], database=None, deadline=None,
                derandomize=False, report_multiple_bugs=False, suppress_health_check=list(HealthCheck),
                phases=[Phase.generate, Phase.shrink], print_blob=False))
        except _Fail:
            pass
        except HarnessError:
            raise
        except BaseException as exc:
            if not last:
                raise HarnessError(f"stateful run failed without a recorded case: {type(exc).__name__}: {exc}")
        state["first"] = False
        if not last:
            break
        res.failures.append({"sig": last["d"].sig, "what": last["d"].what, "case": last["case"]})
        excluded.add(last["d"].sig)
    res.exhaustive = False
    return res
