"""C10 - fitting to PDB limits is a structure-preserving renaming or a clean refusal."""

from __future__ import annotations

from rnaverif import atomtab
from rnaverif.props import c09
from rnaverif.runner import D, HarnessError, ShardResult, check_case, run_hypothesis

PROP_ID = "C10"
LEVEL = "exploration"
RULE = (
    "Hypothesis atom tables (generator of C09: altlocs, insertion codes, 1-3 models, 1-3 chains, charges) pushed "
    "outside PDB limits by drawn modifications - multi-character chain ids, residue numbers shifted above 9999, "
    "serials shifted above 99999, a chain made non-contiguous (its last residue listed after the other chains), or none (already fitting) - emitted as mmCIF by the harness and read with "
    "parse_cif_atoms; the same tables as PDB (always fitting). Oversize constructions built as compact one-atom-per-"
    "residue tables: 63-70 chains, 10000+ residues in one chain - numbered consecutively, or with residues that share a number and differ by insertion code - (quick) and 100000+ atoms (thorough). Oracle: own "
    "feasibility decision (certainly feasible: <=62 chains, atoms+TER <=99999, <=9999 residues per chain; certainly "
    "infeasible: >62 chains or >99999 atoms or >9999 residues in a chain; nothing in between is generated): feasible "
    "=> a table is returned with the same rows in the same order, unchanged name/altloc/residue name/coordinates/"
    "occupancy/B/element/charge/record type/model, limits satisfied, chain and residue renaming functional and "
    "injective, write_pdb -> parse_pdb_atoms reproducing it; infeasible => ValueError and nothing else; already "
    "fitting => the input unchanged. The same oracle is applied to SUB-TABLES of a parsed table (one model or some "
    "chains, selected by boolean mask or by groupby as the splitter does; only some chains may carry long ids) and to "
    "the files written by `splitter -f PDB` for a non-fitting mmCIF input; `unifier -f PDB` on one non-fitting mmCIF "
    "file of complete standard nucleotides must write exactly the atoms of its A/C/G/U residues under a one-to-one, "
    "grouping-preserving renaming (atoms matched by coordinates). Non-trivial: a table that does NOT already fit; distinct = distinct table+modification."
)
ASSUMPTIONS = [
    "grey zone between the certainly-feasible and certainly-infeasible predicates is not judged: TER records take serial numbers, one per run of a chain id per model in a written file (strict count) or one per change of chain id (lenient count); feasible = the strict count fits, infeasible = not even the lenient count fits",
    "pandas raises ValueError for unrelated reasons, so a ValueError on a certainly-feasible table is a violation and the refusal oracle relies on the harness's own feasibility decision",
    "trusted: harness mmCIF/PDB emitters and the neutral accessor of C09",
]


def modify(atoms, mod):
    out = [dict(a) for a in atoms]
    chains = []
    for a in out:
        if a["chain"] not in chains:
            chains.append(a["chain"])
    if mod.get("interleave") and len(chains) >= 2:
        # non-contiguous chain: the last residue of the first chain is listed after all other chains
        # (as waters/ligands sharing a polymer's chain id are in real files)
        res = []
        for a in out:
            if a["chain"] == chains[0] and (a["resseq"], a["icode"]) not in res:
                res.append((a["resseq"], a["icode"]))
        if len(res) >= 2:
            last = res[-1]
            moved = []
            for m in sorted({a["model"] for a in out}):
                block = [a for a in out if a["model"] == m]
                tail = [a for a in block if a["chain"] == chains[0] and (a["resseq"], a["icode"]) == last]
                rest = [a for a in block if not (a["chain"] == chains[0] and (a["resseq"], a["icode"]) == last)]
                moved += rest + tail
            out = moved
    if mod.get("long_chains"):
        only = mod.get("long_only")
        m = {c: (c + mod["long_chains"] if (not only or k % 2 == only - 1) else c) for k, c in enumerate(chains)}
        for a in out:
            a["chain"] = m[a["chain"]]
    if mod.get("model_chains"):
        # every model after the first carries its own (longer) chain names, as in split biological assemblies
        first = min(a["model"] for a in out)
        for a in out:
            if a["model"] != first:
                a["chain"] = a["chain"] + str(a["model"])
    if mod.get("number_shift"):
        for a in out:
            a["resseq"] += mod["number_shift"]
    if mod.get("serial_shift"):
        for a in out:
            a["serial"] += mod["serial_shift"]
    if mod.get("serial_top") and not mod.get("serial_shift"):
        # the largest atom id sits exactly on / one above the width of the serial column
        d = mod["serial_top"] - max(a["serial"] for a in out)
        if min(a["serial"] for a in out) + d >= 1:
            for a in out:
                a["serial"] += d
    if mod.get("number_top") and not mod.get("number_shift"):
        d = mod["number_top"] - max(a["resseq"] for a in out)
        for a in out:
            a["resseq"] += d
    if mod.get("long_name") and fits(out) and not any([mod.get("serial_top"), mod.get("number_top"), mod.get("later_models_shift")]):
        # a table within the three limits that carries a five-character component id (issued by wwPDB since 2023) or a
        # five-character atom name: none of the stated limits is concerned, the table "already fits"
        first = (out[0]["chain"], out[0]["resseq"], out[0]["icode"])
        for a in out:
            if (a["chain"], a["resseq"], a["icode"]) == first:
                if mod["long_name"] == "resname":
                    a["resname"] = "A1LU6"
                elif a is out[0]:
                    a["name"] = "C1'AB"
    if mod.get("later_models_shift"):
        # ensembles whose atom ids / residue numbers run on from model to model: only the later models exceed a limit
        first = min(a["model"] for a in out)
        for a in out:
            if a["model"] != first:
                if mod["later_models_shift"] == "serial":
                    a["serial"] += 100000 * (a["model"] - first)
                else:
                    a["resseq"] += 10000 * (a["model"] - first)
    return out


def fits(atoms):
    return all(len(a["chain"]) == 1 for a in atoms) and all(a["resseq"] <= 9999 for a in atoms) and all(a["serial"] <= 99999 for a in atoms)


def feasibility(atoms):
    chains = {}
    for a in atoms:
        chains.setdefault(a["chain"], set()).add((a["resseq"], a["icode"]))
    nch = len(chains)
    maxres = max(len(v) for v in chains.values())
    # TER records take a serial number each. A written file has one TER per run of a chain id within a model; the
    # most lenient count is one per change of chain id along the table. Feasible for certain when even the strict
    # count fits, infeasible for certain when even the lenient count does not; in between the statement is silent.
    runs = changes = 0
    prev = None
    for a in atoms:
        key = (a["model"], a["chain"])
        if prev is None or key != prev:
            runs += 1
            if prev is not None and key[1] != prev[1]:
                changes += 1
        prev = key
    if nch > 62 or len(atoms) + changes > 99999 or maxres > 9999:
        return "infeasible"
    if nch <= 62 and len(atoms) + runs <= 99999 and maxres <= 9999:
        return "feasible"
    return "grey"


def check_fitted(tag, atoms, fitted_rows, out):
    if len(fitted_rows) != len(atoms):
        out.append(D(f"C10:{tag}:row-count", f"{len(fitted_rows)} rows instead of {len(atoms)}"))
        return
    keep = ["record", "name", "altloc", "resname", "x", "y", "z", "occ", "bfac", "element", "charge", "model"]
    cmap, rmap = {}, {}
    inv_c, inv_r = {}, {}
    for k, (a, b) in enumerate(zip(atoms, fitted_rows)):
        for f in keep:
            if not c09.same(a[f], b[f], f):
                out.append(D(f"C10:{tag}:field-changed:{f}", f"row {k} ({a['name']} {a['chain']}{a['resseq']}{a['icode']}): {f} {a[f]!r} became {b[f]!r}"))
                return
        if len(b["chain"]) != 1 or not b["chain"].strip():
            out.append(D(f"C10:{tag}:limit:chain", f"row {k}: chain id {b['chain']!r}"))
            return
        if b["resseq"] > 9999 or b["serial"] > 99999:
            out.append(D(f"C10:{tag}:limit:number", f"row {k}: resSeq {b['resseq']}, serial {b['serial']}"))
            return
        if cmap.setdefault(a["chain"], b["chain"]) != b["chain"]:
            out.append(D(f"C10:{tag}:chain-split", f"chain {a['chain']!r} mapped to {cmap[a['chain']]!r} and {b['chain']!r}"))
            return
        if inv_c.setdefault(b["chain"], a["chain"]) != a["chain"]:
            out.append(D(f"C10:{tag}:chains-merged", f"chains {inv_c[b['chain']]!r} and {a['chain']!r} both became {b['chain']!r}"))
            return
        ro = (a["chain"], a["resseq"], a["icode"])
        rn = (b["chain"], b["resseq"], b["icode"])
        if rmap.setdefault(ro, rn) != rn:
            out.append(D(f"C10:{tag}:residue-split", f"residue {ro} mapped to {rmap[ro]} and {rn}"))
            return
        if inv_r.setdefault(rn, ro) != ro:
            out.append(D(f"C10:{tag}:residues-merged", f"residues {inv_r[rn]} and {ro} both became {rn}"))
            return
    serials = {}
    for b in fitted_rows:
        key = (b["model"], b["serial"])
        if key in serials:
            out.append(D(f"C10:{tag}:serial-repeated", f"serial {b['serial']} twice in model {b['model']}"))
            return
        serials[key] = True


def select(atoms, df, sel):
    kind, k = sel
    fmt = df.attrs.get("format")
    if kind in ("model", "groupby-model"):
        models = []
        for a in atoms:
            if a["model"] not in models:
                models.append(a["model"])
        m = models[k % len(models)]
        col = "model" if fmt == "PDB" else "pdbx_PDB_model_num"
        sub_atoms = [a for a in atoms if a["model"] == m]
        if col not in df.columns:
            sub = df.copy()  # a dialect without the model item holds a single model: the selection is the whole table
        elif kind == "model":
            sub = df[df[col].astype(int) == m].copy()
        else:
            sub = None
            for key, g in df.groupby(col):
                if int(key) == m:
                    sub = g.copy()
            if sub is None:
                raise HarnessError("groupby lost a model")
    else:
        chains = []
        for a in atoms:
            if a["chain"] not in chains:
                chains.append(a["chain"])
        keep = {c for i, c in enumerate(chains) if (i % 2 == k % 2)} if kind == "chains-alternate" else {chains[k % len(chains)]}
        col = "chainID" if fmt == "PDB" else "auth_asym_id"
        sub_atoms = [a for a in atoms if a["chain"] in keep]
        sub = df[df[col].astype(str).isin(keep)].copy()
    sub.attrs["format"] = fmt
    return sub_atoms, sub


def judge(tag, atoms, df, feas, out):
    from rnapolis.parser_v2 import can_write_pdb, fit_to_pdb, parse_pdb_atoms, write_pdb

    already = fits(atoms)
    can = can_write_pdb(df)
    if can != already:
        out.append(D(f"C10:{tag}:can_write_pdb-wrong", f"can_write_pdb says {can}, table {'fits' if already else 'does not fit'}"))
    before = c09.logical(df)
    try:
        fitted = fit_to_pdb(df)
    except ValueError as e:
        if feas == "feasible":
            out.append(D(f"C10:{tag}:refused-feasible-table", f"ValueError on a table that certainly fits after renaming: {str(e)[:160]}"))
        return
    except Exception as e:
        from rnaverif.runner import sut_location
        out.append(D(f"C10:{tag}:crash:{type(e).__name__}@{sut_location(e.__traceback__)}", f"{type(e).__name__}: {str(e)[:200]}"))
        return
    if feas == "infeasible":
        out.append(D(f"C10:{tag}:infeasible-not-refused", "a table that cannot fit was returned instead of ValueError"))
        return
    after_src = c09.logical(df)
    if after_src != before:
        out.append(D(f"C10:{tag}:input-mutated", "fit_to_pdb changed the table it was given"))
    if already:
        if fitted is not df and c09.logical(fitted) != before:
            out.append(D(f"C10:{tag}:fitting-table-changed", "an already fitting table was not returned unchanged"))
        return
    try:
        rows = c09.logical(fitted)
    except Exception as e:
        out.append(D(f"C10:{tag}:fitted-table-unreadable:{type(e).__name__}", f"{type(e).__name__}: {str(e)[:160]}"))
        return
    check_fitted(tag, atoms, rows, out)
    if not can_write_pdb(fitted):
        out.append(D(f"C10:{tag}:fitted-not-writable", "can_write_pdb(fit_to_pdb(t)) is False"))
    try:
        text = write_pdb(fitted)
        back = c09.logical(parse_pdb_atoms(text))
    except Exception as e:
        from rnaverif.runner import sut_location
        out.append(D(f"C10:{tag}:write-crash:{type(e).__name__}@{sut_location(e.__traceback__)}", f"{type(e).__name__}: {str(e)[:200]}"))
        return
    d = c09.diff_tables(f"{tag}:write-read", rows, back, False)
    out += [D(x.sig.replace("C09:", "C10:"), x.what) for x in d]
    lay = c09.check_pdb_layout(f"{tag}:written", text, rows)
    out += [D(x.sig.replace("C09:", "C10:"), x.what) for x in lay]


def effective_dialect(case, atoms, for_cli=False):
    """the drawn mmCIF dialect, with optional atom_site items left out only where their absence has one reading for
    this table (no insertion code anywhere, a single model numbered 1, no alternate locations); the command-line
    tools are documented to need the model column, so it stays for them"""
    dialect = case.get("dialect")
    if dialect and dialect.get("drop"):
        drop = [d for d in dialect["drop"] if not ((d == "pdbx_PDB_ins_code" and any(a["icode"] for a in atoms))
                                                   or (d == "pdbx_PDB_model_num" and (for_cli or len({a["model"] for a in atoms}) > 1 or atoms[0]["model"] != 1))
                                                   or (d == "label_alt_id" and any(a["altloc"] for a in atoms)))]
        dialect = dict(dialect, drop=drop)
        case["_dropped"] = drop
    return dialect


def oracle(case):
    from rnapolis.parser_v2 import can_write_pdb, fit_to_pdb, parse_cif_atoms, parse_pdb_atoms, write_pdb

    if case.get("oversize"):
        atoms = oversize_table(case["oversize"])
    else:
        atoms = modify(case["atoms"], case.get("mod", {}))
    out = []
    feas = feasibility(atoms)
    if feas == "grey":
        case["_grey"] = True
        return []
    dialect = effective_dialect(case, atoms)
    sources = [("cif", parse_cif_atoms(atomtab.emit_cif(atoms, case.get("null", "?"), dialect=dialect)))]
    if fits(atoms) and not case.get("oversize") and all(len(a["resname"]) <= 3 and len(a["name"]) <= 4 for a in atoms):
        sources.append(("pdb", parse_pdb_atoms(atomtab.emit_pdb(atoms, always_model=True))))
    for tag, df in sources:
        judge(tag, atoms, df, feas, out)
        sel = case.get("select")
        if sel and not case.get("oversize"):
            # a sub-table of a parsed table (one model / some chains, selected by mask or by groupby as the
            # splitter does) is an atom table in its own right
            sub_atoms, sub_df = select(atoms, df, sel)
            if sub_atoms:
                f2 = feasibility(sub_atoms)
                if f2 != "grey":
                    judge(f"{tag}:sub-{sel[0]}", sub_atoms, sub_df, f2, out)
        long_names = any(len(a["resname"]) > 3 or len(a["name"]) > 4 for a in atoms)
        if tag == "cif" and case.get("edit_copy") and not case.get("oversize") and not long_names:
            # a pandas copy of a table that was just asked about, edited afterwards (one chain renamed to a
            # three-character name / one chain's numbers moved above 9999): a table in its own right, whose answer is its own
            chains = []
            for a in atoms:
                if a["chain"] not in chains:
                    chains.append(a["chain"])
            victim = chains[case["edit_copy"][1] % len(chains)]
            df2 = df.copy()
            if case["edit_copy"][0] == "chain":
                atoms2 = [dict(a, chain=a["chain"] + "-2") if a["chain"] == victim else a for a in atoms]
                df2["auth_asym_id"] = [str(c) + "-2" if str(c) == victim else str(c) for c in df2["auth_asym_id"]]
            else:
                atoms2 = [dict(a, resseq=a["resseq"] + 12000) if a["chain"] == victim else a for a in atoms]
                df2["auth_seq_id"] = [int(n) + 12000 if str(c) == victim else int(n) for n, c in zip(df2["auth_seq_id"], df2["auth_asym_id"])]
            f3 = feasibility(atoms2)
            if f3 != "grey":
                judge("cif:edited-copy", atoms2, df2, f3, out)
    seen, res = set(), []
    for d in out:
        if d.sig not in seen:
            seen.add(d.sig)
            res.append(d)
    return res


def oracle_splitter(case):
    """splitter.main -f PDB on an mmCIF file that does not fit PDB limits: every model's file must hold that model's
    atoms under a structure-preserving renaming (the same oracle as for fit_to_pdb)"""
    import contextlib
    import io
    import os
    import shutil
    import sys

    import rnapolis.splitter as sp
    from rnapolis.parser_v2 import parse_pdb_atoms
    from rnaverif.runner import WORK_DIR

    atoms = modify(case["atoms"], dict(case.get("mod", {}), long_name=None))  # (names longer than the PDB columns cannot be written: library-level check only)
    os.makedirs(WORK_DIR, exist_ok=True)
    base = os.path.join(WORK_DIR, f"c10split_{os.getpid()}")
    shutil.rmtree(base, ignore_errors=True)
    os.makedirs(base)
    src = os.path.join(base, "input.cif")
    with open(src, "w") as f:
        f.write(atomtab.emit_cif(atoms, case.get("null", "?"), dialect=effective_dialect(case, atoms, for_cli=True)))
    outdir = os.path.join(base, "out")
    out = []
    old = sys.argv
    buf, err = io.StringIO(), io.StringIO()
    try:
        sys.argv = ["splitter", "-o", outdir, "-f", "PDB", src]
        try:
            with contextlib.redirect_stdout(buf), contextlib.redirect_stderr(err):
                sp.main()
        except SystemExit as e:
            if e.code not in (0, None):
                return [D("C10:splitter:exit", f"splitter exited with {e.code}: {err.getvalue()[-200:]}")]
        models = []
        for a in atoms:
            if a["model"] not in models:
                models.append(a["model"])
        for m in models:
            want = [a for a in atoms if a["model"] == m]
            feas = feasibility(want)
            if feas != "feasible":
                continue
            path = os.path.join(outdir, f"input_model_{m}.pdb")
            if not os.path.exists(path):
                out.append(D("C10:splitter:model-file-missing", f"no PDB written for model {m} although it can be fitted; stderr: {err.getvalue()[-200:]}"))
                continue
            with open(path) as f:
                text = f.read()
            rows = c09.logical(parse_pdb_atoms(text))
            bad = c09.unreadable(rows)
            if bad:
                out.append(D("C10:splitter:written-file-unreadable", f"model {m}: {bad}"))
                continue
            if fits(want):
                d = c09.diff_tables("splitter:already-fits", want, rows, True)
                out += [D(x.sig.replace("C09:", "C10:"), x.what) for x in d]
            else:
                check_fitted("splitter", want, rows, out)
            lay = c09.check_pdb_layout("splitter:written", text, rows)
            out += [D(x.sig.replace("C09:", "C10:"), x.what) for x in lay]
    finally:
        sys.argv = old
        shutil.rmtree(base, ignore_errors=True)
    seen, res = set(), []
    for d in out:
        if d.sig not in seen:
            seen.add(d.sig)
            res.append(d)
    return res


def oracle_unifier(case):
    """unifier.main -f PDB on ONE harness-written mmCIF file of complete standard nucleotides that does not fit PDB
    limits: the written PDB must hold exactly the atoms of the A/C/G/U residues, under a renaming of chains and
    residues that is one-to-one and preserves grouping (atoms matched by their unique coordinates, since the tool
    re-orders atoms inside residues)"""
    import contextlib
    import io
    import os
    import shutil
    import sys

    import rnapolis.unifier as un
    from rnapolis.parser_v2 import parse_pdb_atoms
    from rnaverif.runner import WORK_DIR

    atoms = modify(case["atoms"], dict(case.get("mod", {}), long_name=None))  # (names longer than the PDB columns cannot be written: library-level check only)
    want = [a for a in atoms if a["resname"] in ("A", "C", "G", "U")]
    info = case.setdefault("_info", {})
    if not want or feasibility(atoms) != "feasible":
        info["skipped"] = True
        return []
    os.makedirs(WORK_DIR, exist_ok=True)
    base = os.path.join(WORK_DIR, f"c10unif_{os.getpid()}")
    shutil.rmtree(base, ignore_errors=True)
    os.makedirs(base)
    src = os.path.join(base, "input.cif")
    with open(src, "w") as f:
        f.write(atomtab.emit_cif(atoms, case.get("null", "?")))
    outdir = os.path.join(base, "out")
    out = []
    old = sys.argv
    buf, err = io.StringIO(), io.StringIO()
    try:
        sys.argv = ["unifier", "-o", outdir, "-f", "PDB", src]
        try:
            with contextlib.redirect_stdout(buf), contextlib.redirect_stderr(err):
                un.main()
        except SystemExit as e:
            if e.code not in (0, None):
                return [D("C10:unifier:exit", f"unifier exited with {e.code}: {(buf.getvalue() + err.getvalue())[-200:]}")]
        except Exception as e:
            from rnaverif.runner import sut_location
            return [D(f"C10:unifier:crash:{type(e).__name__}@{sut_location(e.__traceback__)}", f"{type(e).__name__}: {str(e)[:200]}")]
        path = os.path.join(outdir, "input.pdb")
        if not os.path.exists(path):
            return [D("C10:unifier:file-missing", f"no PDB written although the table can be fitted; stderr: {err.getvalue()[-200:]}")]
        with open(path) as f:
            text = f.read()
        rows = c09.logical(parse_pdb_atoms(text))
    finally:
        sys.argv = old
        shutil.rmtree(base, ignore_errors=True)
    bad = c09.unreadable(rows)
    if bad:
        # the written file does not read back as a PDB table at all
        return [D("C10:unifier:written-file-unreadable", f"{len(rows)} records for {len(want)} atoms; {bad}")]
    by_xyz = {}
    for a in want:
        by_xyz[(round(a["x"], 3), round(a["y"], 3), round(a["z"], 3))] = a
    if len(by_xyz) != len(want):
        raise HarnessError("generated atoms share coordinates")
    if len(rows) != len(want):
        out.append(D("C10:unifier:row-count", f"{len(rows)} atoms written for {len(want)} atoms of standard residues"))
    cmap, rmap, inv_c, inv_r, seen_xyz = {}, {}, {}, {}, set()
    for b in rows:
        k = (round(b["x"], 3), round(b["y"], 3), round(b["z"], 3))
        a = by_xyz.get(k)
        if a is None:
            out.append(D("C10:unifier:atom-not-from-input", f"written atom {b['name']} at {k} is no atom of a standard residue of the input"))
            break
        if k in seen_xyz:
            out.append(D("C10:unifier:atom-twice", f"atom at {k} written twice"))
            break
        seen_xyz.add(k)
        for f_ in ("name", "resname", "element", "occ", "bfac", "charge"):
            if not c09.same(a[f_], b[f_], f_):
                out.append(D(f"C10:unifier:field-changed:{f_}", f"{a['name']} {a['chain']}{a['resseq']}{a['icode']}: {f_} {a[f_]!r} became {b[f_]!r}"))
                break
        if len(b["chain"]) != 1 or b["resseq"] > 9999 or b["serial"] > 99999:
            out.append(D("C10:unifier:limit", f"chain {b['chain']!r} resSeq {b['resseq']} serial {b['serial']}"))
            break
        ro, rn = (a["chain"], a["resseq"], a["icode"]), (b["chain"], b["resseq"], b["icode"])
        if cmap.setdefault(a["chain"], b["chain"]) != b["chain"] or inv_c.setdefault(b["chain"], a["chain"]) != a["chain"]:
            out.append(D("C10:unifier:chain-mapping-not-one-to-one", f"{a['chain']!r} -> {b['chain']!r} conflicts with {cmap.get(a['chain'])!r} / {inv_c.get(b['chain'])!r}"))
            break
        if rmap.setdefault(ro, rn) != rn or inv_r.setdefault(rn, ro) != ro:
            out.append(D("C10:unifier:residue-mapping-not-one-to-one", f"{ro} -> {rn} conflicts with {rmap.get(ro)} / {inv_r.get(rn)}"))
            break
    lay = c09.check_pdb_layout("unifier:written", text, rows)
    out += [D(x.sig.replace("C09:", "C10:"), x.what) for x in lay]
    seen, res = set(), []
    for d in out:
        if d.sig not in seen:
            seen.add(d.sig)
            res.append(d)
    return res


def oversize_table(spec):
    kind, n = spec
    atoms = []
    alphabet = "ABCDEFGHIJKLMNOPQRSTUVWXYZabcdefghijklmnopqrstuvwxyz0123456789"

    def atom(serial, chain, resseq, k):
        return {"record": "ATOM", "serial": serial, "name": "P", "altloc": "", "resname": "A", "chain": chain, "resseq": resseq,
                "icode": "", "x": float(k % 900), "y": float((k // 900) % 900), "z": float(k // 810000), "occ": 1.0,
                "bfac": 0.0, "element": "P", "charge": 0, "model": 1}

    if kind == "chains":
        for k in range(n):
            ch = alphabet[k % 62] + alphabet[k // 62]
            atoms.append(atom(k + 1, ch, 1, k))
    elif kind == "residues":
        for k in range(n):
            atoms.append(atom(k + 1, "AA", k + 1, k))
    elif kind == "residues-icode":
        # n residues of one chain on only n-2 distinct numbers: two of them share a number with their predecessor and
        # differ by insertion code (5000, 5000A, 5000B), so counting numbers and counting residues give different answers
        for k in range(n):
            num = k + 1 if k < 5000 else (5000 if k < 5002 else k - 1)
            a = atom(k + 1, "AA", num, k)
            a["icode"] = "" if k < 5000 or k >= 5002 else "AB"[k - 5000]
            atoms.append(a)
    elif kind == "atoms":
        for k in range(n):
            atoms.append(atom(k + 1, "AA" if k % 2 else "BB", k // 20 + 1, k))
    elif kind == "atoms-runs":
        # three chains, each listed in three separate runs (polymer, then its ions, then its waters, as in files
        # derived from PDB entries): 9 TER records although there are only 3 chains
        names = ["AA", "BB", "CC"]
        per = n // 9
        k = 0
        for part in range(3):
            for c in range(3):
                cnt = per if (part, c) != (2, 2) else n - 8 * per
                for t in range(cnt):
                    atoms.append(atom(k + 1, names[c], 1000 * part + t // 20 + 1, k))
                    k += 1
    elif kind in ("ensemble", "ensemble-chains"):
        # an ensemble handed over whole (not split into models first): n models of a three-chain complex with
        # two-character chain names, or two models of n such chains. The chain limit of the format counts distinct
        # chain names, not chains times models; one TER per chain per model does take a serial each
        models, names = (n, ["AA", "BB", "CC"]) if kind == "ensemble" else (2, [alphabet[k % 62] + alphabet[k // 62] for k in range(n)])
        k = 0
        for m in range(1, models + 1):
            for c, ch in enumerate(names):
                for r in range(2):
                    for t in range(2):
                        a = atom(c * 4 + r * 2 + t + 1, ch, r + 1, k)
                        a["model"] = m
                        a["name"], a["element"] = ("P", "P") if t == 0 else ("C4'", "C")
                        atoms.append(a)
                        k += 1
    else:
        raise HarnessError(kind)
    return atoms


def classify(case):
    if case.get("oversize"):
        return True, ["oversize:" + case["oversize"][0]]
    atoms = modify(case["atoms"], case.get("mod", {}))
    labs = []
    mod = case.get("mod", {})
    for k in ("long_chains", "number_shift", "serial_shift", "interleave", "model_chains", "later_models_shift"):
        if mod.get(k):
            labs.append(k)
    if mod.get("long_chains") and mod.get("long_only"):
        labs.append("long-chains-only-some")
    if case.get("select"):
        labs.append("sub-table:" + case["select"][0])
    if case.get("cli") is True:
        labs.append("splitter-cli")
    if (case.get("dialect") or {}).get("label_alias"):
        labs.append("label-names-differ-from-author-names")
    if (case.get("dialect") or {}).get("drop"):
        labs.append("optional-items-left-out")
    if len({a["model"] for a in atoms}) >= 2:
        labs.append("models>=2")
    if any(a["icode"] for a in atoms):
        labs.append("icode")
    if not labs or fits(atoms):
        labs.append("already-fits")
    return not fits(atoms), labs


def st_cases():
    from hypothesis import strategies as st

    mod = st.fixed_dictionaries({
        "long_chains": st.sampled_from(["", "", "A", "x1", "LONG"]),
        "number_shift": st.sampled_from([0, 0, 10000, 99000]),
        "serial_shift": st.sampled_from([0, 0, 100000, 12345678]),
        "serial_top": st.sampled_from([0, 0, 0, 99999, 100000]),
        "number_top": st.sampled_from([0, 0, 0, 9999, 10000]),
        "long_name": st.sampled_from([None, None, None, "resname", "atomname"]),
        "interleave": st.booleans(),
        "long_only": st.sampled_from([0, 0, 1, 2]),
        "model_chains": st.sampled_from([False, False, True]),
        "later_models_shift": st.sampled_from(["", "", "serial", "number"]),
    })
    select = st.one_of(st.none(), st.tuples(st.sampled_from(["model", "groupby-model", "chain", "chains-alternate"]), st.integers(0, 3)).map(list))
    # label-side atom / residue names that differ from the author-side ones (old vs remediated nomenclature)
    dialect = st.sampled_from([None, None, {"label_alias": True}, {"drop": ["pdbx_PDB_ins_code"]}, {"drop": ["pdbx_PDB_model_num"]},
                               {"drop": ["label_alt_id", "pdbx_PDB_ins_code", "pdbx_PDB_model_num"]}])
    edit = st.one_of(st.none(), st.none(), st.tuples(st.sampled_from(["chain", "number"]), st.integers(0, 3)).map(list))
    return st.fixed_dictionaries({"atoms": atomtab.st_tables(max_residues=4, max_atoms=5, shared_positions=True), "mod": mod, "null": st.sampled_from(["?", "."]),
                                  "select": select, "dialect": dialect, "edit_copy": edit})


def st_unifier_cases():
    from hypothesis import strategies as st

    mod = st.fixed_dictionaries({
        "long_chains": st.sampled_from(["", "A", "x1", "LONG"]),
        "number_shift": st.sampled_from([0, 0, 10000, 99000]),
        "serial_shift": st.sampled_from([0, 0, 100000]),
        "serial_top": st.sampled_from([0, 0, 99999, 100000]),
        "number_top": st.sampled_from([0, 0, 9999, 10000]),
        "long_only": st.sampled_from([0, 0, 1, 2]),
    })
    return st.fixed_dictionaries({"atoms": atomtab.st_tables(max_models=1, max_chains=3, max_residues=4, altlocs=False, hetero=False,
                                                             realistic_nucleotides=True),
                                  "mod": mod, "null": st.sampled_from(["?", "."]), "cli": st.just("unifier")})


def st_cli_cases():
    from hypothesis import strategies as st

    return st_cases().map(lambda c: dict(c, cli=True, select=None))


def plan(tier, seed):
    if tier == "quick":
        specs = [{"kind": "tables", "examples": 50, "seed": seed * 1000 + k} for k in range(14)]
        specs += [{"kind": "oversize", "cases": [["chains", 63]]}, {"kind": "oversize", "cases": [["chains", 62], ["residues", 10000]]},
                  {"kind": "oversize", "cases": [["residues-icode", 10000]]}, {"kind": "oversize", "cases": [["residues-icode", 9999]]},
                  {"kind": "oversize", "cases": [["atoms-runs", 99995]]},
                  {"kind": "oversize", "cases": [["ensemble", 22], ["ensemble", 4], ["ensemble-chains", 40], ["ensemble-chains", 62], ["ensemble-chains", 63]]}]
        specs += [{"kind": "splitter", "examples": 30, "seed": seed * 1000 + 200 + k} for k in range(4)]
        specs += [{"kind": "unifier", "examples": 20, "seed": seed * 1000 + 300 + k} for k in range(4)]
    else:
        specs = [{"kind": "tables", "examples": 800, "seed": seed * 1000 + k} for k in range(14)]
        specs += [{"kind": "oversize", "cases": [["chains", 63], ["chains", 70], ["chains", 62]]},
                  {"kind": "oversize", "cases": [["residues", 10000], ["residues", 9999]]},
                  {"kind": "oversize", "cases": [["residues-icode", 10000], ["residues-icode", 10001]]}, {"kind": "oversize", "cases": [["residues-icode", 9999]]},
                  {"kind": "oversize", "cases": [["atoms", 100000]]}, {"kind": "oversize", "cases": [["atoms-runs", 99995]]},
                  {"kind": "oversize", "cases": [["atoms-runs", 99990]]}, {"kind": "oversize", "cases": [["atoms-runs", 99993]]},
                  {"kind": "oversize", "cases": [["ensemble", m] for m in (2, 20, 21, 22, 30, 63, 200)] + [["ensemble-chains", c] for c in (31, 32, 40, 62, 63)]}]
        specs += [{"kind": "splitter", "examples": 300, "seed": seed * 1000 + 200 + k} for k in range(8)]
        specs += [{"kind": "unifier", "examples": 150, "seed": seed * 1000 + 300 + k} for k in range(8)]
    return specs


def to_json(case):
    return {k: v for k, v in case.items() if not k.startswith("_")}


def run_shard(spec) -> ShardResult:
    res = ShardResult()
    if spec["kind"] == "unifier":
        run_hypothesis(PROP_ID, st_unifier_cases(), oracle_unifier, seed=spec["seed"], max_examples=spec["examples"], result=res,
                       to_json=to_json, classify=lambda c: (classify(c)[0] and not c.get("_info", {}).get("skipped"), ["unifier-cli"] + classify(c)[1]), sample_cap=1)
    elif spec["kind"] == "splitter":
        run_hypothesis(PROP_ID, st_cli_cases(), oracle_splitter, seed=spec["seed"], max_examples=spec["examples"], result=res,
                       to_json=to_json, classify=classify, sample_cap=1)
    elif spec["kind"] == "tables":
        run_hypothesis(PROP_ID, st_cases(), oracle, seed=spec["seed"], max_examples=spec["examples"], result=res,
                       to_json=to_json, classify=classify, sample_cap=1)
    else:
        for oc in spec["cases"]:
            case = {"oversize": oc}
            check_case(PROP_ID, oracle, case, res, to_json=to_json)
            res.note_case(to_json(case), True, ["oversize:" + oc[0]])
    res.exhaustive = False
    return res


def replay(case):
    if case.get("cli") == "unifier":
        return oracle_unifier(dict(case))
    if case.get("cli"):
        return oracle_splitter(dict(case))
    return oracle(dict(case))
