"""C17 - clash detection equals the pairwise van-der-Waals definition."""

from __future__ import annotations

import contextlib
import csv
import io
import itertools
import math
import os
import re
import sys

import numpy as np

from rnaverif import atomtab, corpus
from rnaverif.runner import D, HarnessError, ShardResult, WORK_DIR, check_case, run_hypothesis

PROP_ID = "C17"
LEVEL = "exploration"
RADII = {"C": 0.6, "N": 0.54, "O": 0.53, "P": 0.94}
OPTIONS = list(itertools.product([False, True], repeat=5))  # ignore_occupancy, ignore_autoclashes, nucleic_acid_only, same_name, molprobity
EPS = 1e-6
RULE = (
    "Domains: (a) corpus structures; (b) Hypothesis residue sets: complete nucleotides and amino-acid/ion-like "
    "residues on a 3 A lattice, with drawn atom pairs planted at distance (r1+r2[+0.5]) + {-0.3, -0.05, -0.001, "
    "+0.001, +0.05, +0.3} A, occupancies from {0.0, 0.3, 0.5, 0.7, 1.0, absent}, atoms whose names do not start with "
    "C/N/O/P; ALL 32 option combinations are evaluated for every structure (exhaustive over configurations). Oracle: "
    "all-pairs enumeration (brute force up to 3000 atoms): atoms typed by the first letter of the name, pair listed "
    "<=> distance <= r1+r2 (+0.5 in MolProbity mode; undecided within 1e-6) and the option filters (nucleotide "
    "residues only; different residues only; equal names only; occupancy sum == 1 with absent = 1.0 unless "
    "ignored), each unordered pair once, reported occupancy sum correct. CLI: clashfinder.main on an mmCIF written "
    "by the harness (with exptl/refine categories): per-residue-pair and per-chain-pair maxima printed == maxima "
    "over the atom-level lines, atom-level lines == find_clashes on the same file, CSV rows == atom-level lines. "
    "Non-trivial: structure with >=3 expected clashes whose occupancy sums differ; distinct = distinct structure."
)
ASSUMPTIONS = [
    "which residues are nucleotides is taken from Residue3D.is_nucleotide (input classification, not under test here)",
    "distances within 1e-6 of the limit are undecided",
    "for more than 3000 atoms a KD-tree with a 3.5 A radius pre-selects candidate pairs for the exact test",
    "trusted: NumPy, harness mmCIF emitter",
]


def atom_type(name):
    n = name.strip()
    return n[0] if n and n[0] in RADII else None


def expected_clashes(residues, opts):
    """returns dict {(i,j): (state, occupancy_sum)} over atom indices in `flat`, plus flat list"""
    ign_occ, ign_auto, na_only, same_name, molp = opts
    flat = []
    for ri, r in enumerate(residues):
        if na_only and not r.is_nucleotide:
            continue
        for a in r.atoms:
            if atom_type(a.name) is not None:
                flat.append((ri, a))
    n = len(flat)
    out = {}
    if n < 2:
        return out, flat
    P = np.array([[a.x, a.y, a.z] for _, a in flat])
    extra = 0.5 if molp else 0.0
    if n <= 3000:
        # brute force in blocks
        cand = []
        for s in range(0, n, 500):
            d = np.linalg.norm(P[s:s + 500, None, :] - P[None, :, :], axis=2)
            ii, jj = np.nonzero(d <= 2 * 0.94 + extra + 1e-3)
            for a, b in zip(ii, jj):
                a = a + s
                if a < b:
                    cand.append((int(a), int(b)))
    else:
        from scipy.spatial import cKDTree

        cand = sorted(cKDTree(P).query_pairs(3.5))
    for i, j in cand:
        (ri, ai), (rj, aj) = flat[i], flat[j]
        if ign_auto and ri == rj:
            continue
        if same_name and ai.name != aj.name:
            continue
        lim = RADII[atom_type(ai.name)] + RADII[atom_type(aj.name)] + extra
        d = float(np.linalg.norm(P[i] - P[j]))
        if d > lim + EPS:
            continue
        oi = 1.0 if ai.occupancy is None else ai.occupancy
        oj = 1.0 if aj.occupancy is None else aj.occupancy
        s = oi + oj
        if not ign_occ and not math.isclose(s, 1.0):
            continue
        out[(i, j)] = (True if d < lim - EPS else None, s)
    return out, flat


def check_find_clashes(residues, tag="", options=None):
    from rnapolis.clashfinder import find_clashes

    out = []
    total = 0
    sums = set()
    for opts in (options or OPTIONS):
        exp, flat = expected_clashes(residues, opts)
        index = {id(a): k for k, (_, a) in enumerate(flat)}
        got = find_clashes(residues, *opts)
        seen = {}
        oname = "opts=" + "".join("1" if o else "0" for o in opts)
        for (ri, ai), (rj, aj), s in got:
            i, j = index.get(id(ai)), index.get(id(aj))
            if i is None or j is None:
                out.append(D(f"C17:{tag}listed-atom-not-eligible", f"{oname}: {ri} {ai.name} / {rj} {aj.name} is not a C/N/O/P atom of an eligible residue"))
                continue
            key = (min(i, j), max(i, j))
            if key in seen:
                out.append(D(f"C17:{tag}pair-listed-twice", f"{oname}: {ri} {ai.name} - {rj} {aj.name}"))
            seen[key] = s
            if key not in exp:
                d = math.dist((ai.x, ai.y, ai.z), (aj.x, aj.y, aj.z))
                out.append(D(f"C17:{tag}unjustified-clash", f"{oname}: {ri} {ai.name} - {rj} {aj.name} at {d:.4f} A, occupancies {ai.occupancy}/{aj.occupancy} listed"))
            elif abs(exp[key][1] - s) > 1e-9:
                out.append(D(f"C17:{tag}wrong-occupancy-sum", f"{oname}: {ai.name}-{aj.name}: reported {s}, occupancies {ai.occupancy}+{aj.occupancy}"))
        for key, (state, s) in exp.items():
            if state is True:
                total += 1
                sums.add(round(s, 6))
                if key not in seen:
                    (ri, ai), (rj, aj) = flat[key[0]], flat[key[1]]
                    d = math.dist((ai.x, ai.y, ai.z), (aj.x, aj.y, aj.z))
                    out.append(D(f"C17:{tag}missing-clash", f"{oname}: {residues[ri]} {ai.name} - {residues[rj]} {aj.name} at {d:.4f} A (limit {RADII[atom_type(ai.name)] + RADII[atom_type(aj.name)] + (0.5 if opts[4] else 0)}), occupancies {ai.occupancy}/{aj.occupancy} not listed"))
        if len(out) > 6:
            break
    dedup, seen_sig = [], set()
    for d in out:
        if d.sig not in seen_sig:
            seen_sig.add(d.sig)
            dedup.append(d)
    return dedup, total, sums


# ---------------------------------------------------------------------------
# synthetic residue sets

NUC_NAMES = atomtab.NUC_ATOMS["backbone"] + atomtab.NUC_ATOMS["G"]
AA_NAMES = ["N", "CA", "C", "O", "CB", "OXT", "SG", "H1", "FE", "MG", "ZN", "CL", "NA", "SE", "1HB",
            # phosphorus atoms of ligands, caps and cofactors (GTP, 2BA, CCC): P by type, not by the name 'P'
            "PA", "PB", "PG", "P1", "PC", "O1A", "O3B", "N3A",
            # names longer than the four PDB columns (builder / MD output for large ligands, legal in mmCIF) that agree in
            # their first four characters
            "C1001", "C1002", "O1001", "O1002", "N1001"]


def build_residues(case):
    from rnapolis.common import ResidueAuth
    from rnapolis.tertiary import Atom, Residue3D

    residues = []
    cell = 0
    atoms_index = []  # (residue idx, atom idx)
    coords = []
    for ri, r in enumerate(case["residues"]):
        for ai, nm in enumerate(r["names"]):
            i, j, k = cell % 12, (cell // 12) % 12, cell // 144
            coords.append([i * 3.0, j * 3.0, k * 3.0])
            atoms_index.append((ri, ai))
            cell += 1
    coords = [list(c) for c in coords]
    for (a, b, delta, axis, molp) in case["plants"]:
        if not coords:
            break
        a %= len(coords)
        b %= len(coords)
        if a == b:
            continue
        na = case["residues"][atoms_index[a][0]]["names"][atoms_index[a][1]]
        nb = case["residues"][atoms_index[b][0]]["names"][atoms_index[b][1]]
        ta, tb = atom_type(na), atom_type(nb)
        base = (RADII.get(ta, 0.6) + RADII.get(tb, 0.6)) + (0.5 if molp else 0.0)
        coords[b] = list(coords[a])
        coords[b][axis] = round(coords[a][axis] + base + delta, 4)
    pos = 0
    for ri, r in enumerate(case["residues"]):
        auth = ResidueAuth(r["chain"], r["number"], None, r["resname"])
        ats = []
        for ai, nm in enumerate(r["names"]):
            x, y, z = coords[pos]
            occ = r["occ"][ai % len(r["occ"])]
            ats.append(Atom(None, None, auth, r.get("model", 1), nm, float(x), float(y), float(z), occ))
            pos += 1
        residues.append(Residue3D(None, auth, r.get("model", 1), r["letter"], tuple(ats)))
    return residues


def st_cases():
    from hypothesis import strategies as st

    occ = st.sampled_from([0.0, 0.3, 0.5, 0.7, 1.0, 1.0, None])

    @st.composite
    def build(draw):
        nres = draw(st.integers(1, 5))
        residues = []
        number = {}
        for _ in range(nres):
            chain = draw(st.sampled_from(["A", "A", "B"]))
            # a position modelled as two different residues (microheterogeneity: G as one conformer, A as the other)
            # keeps its number; otherwise the chain's numbering moves on
            shared = chain in number and draw(st.integers(0, 4)) == 0
            if not shared:
                number[chain] = number.get(chain, 0) + 1
            if draw(st.booleans()):
                prev = [r for r in residues if r["chain"] == chain and r["number"] == number[chain]]
                resname = "A" if any(r["resname"] == "G" for r in prev) else "G"
                if shared and any(r["resname"] == resname for r in prev):
                    number[chain] += 1
                names, letter = list(NUC_NAMES), resname
            elif shared:
                number[chain] += 1
                k = draw(st.integers(1, 6))
                names = draw(st.lists(st.sampled_from(AA_NAMES), min_size=k, max_size=k, unique=True))
                letter, resname = "?", draw(st.sampled_from(["ALA", "HOH", "MG", "CYS"]))
            else:
                k = draw(st.integers(1, 6))
                names = draw(st.lists(st.sampled_from(AA_NAMES), min_size=k, max_size=k, unique=True))
                letter, resname = "?", draw(st.sampled_from(["ALA", "HOH", "MG", "CYS"]))
            occs = draw(st.lists(occ, min_size=1, max_size=4))
            # the list handed to find_clashes may pool residues of several models (an ensemble read model by model):
            # no option and no part of the definition restricts pairs to one model
            residues.append({"chain": chain, "number": number[chain], "names": names, "letter": letter, "resname": resname, "occ": occs,
                             "model": draw(st.sampled_from([1, 1, 1, 2]))})
        # both alternate locations of an atom kept in ONE residue (residues assembled through the API rather than read
        # by the library's parser, which keeps one location per atom name): two atoms of a residue share a name
        twins = []
        for ri, r in enumerate(residues):
            if draw(st.integers(0, 3)) == 0:
                k = draw(st.integers(0, len(r["names"]) - 1))
                start = sum(len(q["names"]) for q in residues[:ri])
                twins.append((start + k, start + len(r["names"])))
                r["names"] = r["names"] + [r["names"][k]]
                if draw(st.booleans()):
                    r["occ"] = [0.5]
        nat = sum(len(r["names"]) for r in residues)
        plants = draw(st.lists(st.tuples(st.integers(0, 10 ** 6), st.integers(0, 10 ** 6),
                                         st.sampled_from([-0.3, -0.05, -0.001, -0.0001, 0.0001, 0.001, 0.05, 0.3, -0.6]),
                                         st.integers(0, 2), st.booleans()), min_size=1, max_size=6))
        plants = [list(p) for p in plants]
        for a, b in twins:
            if draw(st.booleans()):
                plants.append([a, b, draw(st.sampled_from([-0.6, -0.3, -0.05, 0.05])), draw(st.integers(0, 2)), draw(st.booleans())])
        return {"kind": "synthetic", "residues": residues, "plants": plants}

    return build()


def oracle_synthetic(case):
    residues = build_residues(case)
    ds, total, sums = check_find_clashes(residues)
    case["_info"] = {"clashes": total, "sums": len(sums)}
    return ds


def oracle_assembly(case):
    """k translated, non-touching copies of a corpus structure assembled through the API (chains renamed per copy): an
    input of ribosome / capsid size, where batching, block-wise processing and size limits inside the search act"""
    import numpy as np
    from rnapolis.tertiary import Structure3D
    from rnaverif import gen3d

    s3 = corpus.structure(case["file"])
    P = np.array([[a.x, a.y, a.z] for r in s3.residues for a in r.atoms])
    step = float(P[:, 0].max() - P[:, 0].min()) + 10.0
    residues = []
    for c in range(case["copies"]):
        part = gen3d.rebuild(s3, point_fn=lambda xyz, ri, k, c=c: xyz + np.array([c * step, 0.0, 0.0]),
                             chain_map={ch: f"{ch}{c}" for ch in {r.chain for r in s3.residues}})
        residues += list(part.residues)
    ds, total, sums = check_find_clashes(residues, options=[tuple(o) for o in case["opts"]])
    case["_info"] = {"clashes": total, "sums": len(sums), "atoms": sum(len(r.atoms) for r in residues)}
    return ds


def oracle_ensemble(case):
    """K conformers of a fragment of 2-4 residues pooled into ONE residue list (the models of an NMR ensemble or
    superposed alternatives handed over together), each displaced atom by atom by a fixed smooth function of (copy,
    residue, atom): dozens of selected atoms lie within the search radius of one atom - a local density no single
    model reaches, where a neighbour search that caps the neighbours per atom, or works in buckets, loses pairs"""
    import numpy as np
    from rnaverif import gen3d

    s3 = corpus.structure(case["file"])
    first = case["first"] % max(1, len(s3.residues) - case["span"])
    keep = set(range(first, first + case["span"]))
    amp = case["amp"]
    residues = []
    for c in range(case["copies"]):
        def move(xyz, ri, k, c=c):
            return xyz + amp * np.array([math.sin(1.7 * c + 0.9 * k + 0.3 * ri), math.sin(2.3 * c + 1.1 * k + 0.5), math.cos(1.3 * c + 0.7 * k + 0.2 * ri)])
        part = gen3d.rebuild(s3, point_fn=move, keep=keep, model=c + 1,
                             occupancy_fn=(lambda ri, name, occ, c=c: round(1.0 / case["copies"], 3) if (c + ri + len(name)) % 3 == 0 else occ) if case.get("partial") else None)
        residues += list(part.residues)
    ds, total, sums = check_find_clashes(residues, options=[tuple(o) for o in case["opts"]] if case.get("opts") else None)
    case["_info"] = {"clashes": total, "sums": len(sums), "atoms": sum(len(r.atoms) for r in residues)}
    return ds


def oracle_file(case):
    s3 = corpus.structure(case["file"], 1) if False else corpus.structure(case["file"])
    ds, total, sums = check_find_clashes(s3.residues)
    case["_info"] = {"clashes": total, "sums": len(sums)}
    return ds


# ---------------------------------------------------------------------------
# command-line tool

EXTRA = """_exptl.entry_id verif
_exptl.method 'X-RAY DIFFRACTION'
#
_refine.entry_id verif
_refine.ls_d_res_high 2.10"""


def table_from_residues(residues):
    atoms = []
    serial = 1
    for r in residues:
        for a in r.atoms:
            atoms.append({"record": "ATOM", "serial": serial, "name": a.name, "altloc": "", "resname": r.auth.name, "chain": r.auth.chain,
                          "resseq": r.auth.number, "icode": "", "x": round(a.x, 3), "y": round(a.y, 3), "z": round(a.z, 3),
                          "occ": a.occupancy, "bfac": 0.0, "element": atomtab.element_of(a.name), "charge": 0, "model": 1})
            serial += 1
    return atoms


def oracle_cli(case):
    import rnapolis.clashfinder as cf
    from rnapolis.parser import read_3d_structure

    residues = build_residues(case)
    atoms = table_from_residues(residues)
    os.makedirs(WORK_DIR, exist_ok=True)
    path = os.path.join(WORK_DIR, f"c17_{os.getpid()}.cif")
    csvp = path + ".csv"
    extra, dialect = EXTRA, None
    if case.get("entities"):
        # a deposited-style file: entity tables, and (if drawn) the last nucleotide residue as a bound ligand of a
        # non-polymer entity - "nucleic acid only" is about nucleotides, whatever entity they belong to
        nucs = []
        for a in atoms:
            k = (a["chain"], a["resseq"], a["icode"])
            if a["resname"] in ("A", "G") and k not in nucs:
                nucs.append(k)
        ligands = [list(nucs[-1])] if (case["entities"] == "with-ligand" and len(nucs) >= 2) else []
        extra = EXTRA + "\n#\n" + atomtab.entity_categories(atoms, ligands)
        dialect = {"entities": True, "ligands": ligands}
        case["_ligand"] = bool(ligands)
    with open(path, "w") as f:
        f.write(atomtab.emit_cif(atoms, "?", extra_categories=extra, dialect=dialect))
    out = []
    flags_all = ["--ignore-occupancy", "--ignore-autoclashes", "--nucleic-acid-only", "--require-same-atom-name", "--enable-molprobity-mode"]
    try:
        with open(path) as f:
            s3 = read_3d_structure(f, 1)
        n_lines = 0
        for opts in case.get("cli_options", [[True, False, False, False, True], [False, False, False, False, False]]):
            opts = tuple(bool(o) for o in opts)
            argv = ["clashfinder", path] + [fl for fl, o in zip(flags_all, opts) if o] + ["--csv", csvp]
            if os.path.exists(csvp):
                os.remove(csvp)
            buf = io.StringIO()
            old = sys.argv
            try:
                sys.argv = argv
                with contextlib.redirect_stdout(buf):
                    cf.main()
            finally:
                sys.argv = old
            text = buf.getvalue()
            oname = "opts=" + "".join("1" if o else "0" for o in opts)
            # parse the report
            chain_hdr = None
            res_hdr = None
            atom_lines = []  # (chainpair, respair, a1, a2, occ)
            chain_max, res_max = {}, {}
            for line in text.splitlines():
                m = re.match(r"^Clashes found in chain (\S+) with maximum occupancy sum equal to (\S+)$", line)
                m2 = re.match(r"^Clashes found between chains (\S+) and (\S+) with maximum occupancy sum equal to (\S+)$", line)
                if m:
                    chain_hdr = (m.group(1), m.group(1))
                    chain_max[chain_hdr] = float(m.group(2))
                    continue
                if m2:
                    chain_hdr = (m2.group(1), m2.group(2))
                    chain_max[chain_hdr] = float(m2.group(3))
                    continue
                m = re.match(r"^    Clashes found in residue (\S+) with maximum occupancy sum equal to (\S+)$", line)
                m2 = re.match(r"^    Clashes found between residues (\S+) and (\S+) with maximum occupancy sum equal to (\S+)$", line)
                if m:
                    res_hdr = (chain_hdr, m.group(1), m.group(1))
                    res_max[res_hdr] = float(m.group(2))
                    continue
                if m2:
                    res_hdr = (chain_hdr, m2.group(1), m2.group(2))
                    res_max[res_hdr] = float(m2.group(3))
                    continue
                m = re.match(r"^        Clashes found between atoms (\S+) and (\S+) with occupancy sum of (\S+)$", line)
                if m:
                    atom_lines.append((chain_hdr, res_hdr, m.group(1), m.group(2), float(m.group(3))))
                    continue
                if line.strip():
                    out.append(D("C17:cli:unparsable-line", f"{oname}: {line!r}"))
            n_lines += len(atom_lines)
            for ch, mx in chain_max.items():
                vals = [o for c, _, _, _, o in atom_lines if c == ch]
                if not vals or abs(max(vals) - mx) > 1e-9:
                    out.append(D("C17:cli:chain-maximum-wrong", f"{oname}: chains {ch}: printed maximum {mx}, atom-level lines give {max(vals) if vals else None} (values {sorted(set(vals))})"))
            for rh, mx in res_max.items():
                vals = [o for _, r, _, _, o in atom_lines if r == rh]
                if not vals or abs(max(vals) - mx) > 1e-9:
                    out.append(D("C17:cli:residue-maximum-wrong", f"{oname}: residues {rh[1:]}: printed maximum {mx}, atom-level lines give {max(vals) if vals else None}"))
            # atom-level lines == expected clashes on the structure the tool read
            exp, flat = expected_clashes(s3.residues, opts)
            want = sorted((str(s3.residues[flat[i][0]]), flat[i][1].name, str(s3.residues[flat[j][0]]), flat[j][1].name, round(s, 6))
                          for (i, j), (state, s) in exp.items() if state is True)
            maybe = sorted((str(s3.residues[flat[i][0]]), flat[i][1].name, str(s3.residues[flat[j][0]]), flat[j][1].name, round(s, 6))
                           for (i, j), (state, s) in exp.items())
            got = sorted((r[1], a1, r[2], a2, round(o, 6)) for _, r, a1, a2, o in atom_lines)

            def unordered(rows):
                return sorted(tuple(sorted([(x[0], x[1]), (x[2], x[3])])) + (x[4],) for x in rows)

            if not (set(unordered(want)) <= set(unordered(got)) <= set(unordered(maybe))):
                out.append(D("C17:cli:report-differs-from-definition", f"{oname}: report lists {len(got)} clashes, definition gives {len(want)}"))
            # CSV
            if atom_lines:
                if not os.path.exists(csvp):
                    out.append(D("C17:cli:csv-missing", f"{oname}: no CSV written although clashes were reported"))
                else:
                    with open(csvp) as f:
                        rows = list(csv.reader(f))[1:]
                    csv_rows = sorted((r[3].rsplit(" ", 1)[0], r[3].rsplit(" ", 1)[1], r[4].rsplit(" ", 1)[0], r[4].rsplit(" ", 1)[1], round(float(r[5]), 6)) for r in rows)
                    if csv_rows != got:
                        out.append(D("C17:cli:csv-differs-from-report", f"{oname}: CSV has {len(csv_rows)} rows, report {len(got)} atom lines; first CSV-only {sorted(set(csv_rows) - set(got))[:2]}"))
        case["_info"] = {"clashes": n_lines, "sums": 0}
    finally:
        for p in (path, csvp):
            with contextlib.suppress(OSError):
                os.remove(p)
    dedup, seen = [], set()
    for d in out:
        if d.sig not in seen:
            seen.add(d.sig)
            dedup.append(d)
    return dedup


def oracle(case):
    if case.get("kind") == "cli":
        return oracle_cli(case)
    if case.get("kind") == "ensemble":
        return oracle_ensemble(case)
    if case.get("kind") == "assembly":
        return oracle_assembly(case)
    if "file" in case:
        return oracle_file(case)
    return oracle_synthetic(case)


def classify(case):
    info = case.get("_info", {"clashes": 0, "sums": 0})
    labs = [case.get("kind", "file")]
    if info["clashes"] >= 3:
        labs.append("clashes>=3")
    if info["sums"] >= 2:
        labs.append("different-occupancy-sums")
    rs = case.get("residues") or []
    if len({(r["chain"], r["number"]) for r in rs}) < len(rs):
        labs.append("two-residues-at-one-position")
    if len({r.get("model", 1) for r in rs}) > 1:
        labs.append("residues-of-two-models")
    if any(len(set(r["names"])) < len(r["names"]) for r in rs):
        labs.append("two-atoms-of-one-name-in-a-residue")
    if case.get("entities"):
        labs.append("mmcif-with-entity-tables" + ("-and-a-nucleotide-ligand" if case.get("_ligand") else ""))
    if case.get("kind") == "cli":
        return info["clashes"] >= 3, labs
    return info["clashes"] >= 3 and info["sums"] >= 2, labs


def to_json(case):
    return {k: v for k, v in case.items() if not k.startswith("_")}


def plan(tier, seed):
    if tier == "quick":
        specs = [{"kind": "files", "files": [f]} for f in corpus.SMALL[:6] + ["488d.pdb"]]
        specs += [{"kind": "synthetic", "examples": 200, "seed": seed * 1000 + k} for k in range(12)]
        specs += [{"kind": "cli", "examples": 40, "seed": seed * 1000 + 100 + k} for k in range(4)]
        specs += [{"kind": "cli-fixed"}]
        specs += [{"kind": "assembly", "file": "6g90_1.cif", "copies": 8, "opts": [[True, True, False, False, True]]},
                  {"kind": "assembly", "file": "6g90_1.cif", "copies": 8, "opts": [[True, False, False, False, True]]}]
        few = [[True, False, False, False, True], [True, True, False, False, False], [False, False, False, False, True], [False, True, True, True, False]]
        specs += [{"kind": "ensemble", "files": [f], "copies": [c], "amps": [0.35, 0.8], "opts": few} for f in corpus.SMALL[:3] for c in (8, 14)]
    else:
        specs = [{"kind": "files", "files": [f]} for f in corpus.all_files()]
        specs += [{"kind": "synthetic", "examples": 4000, "seed": seed * 1000 + k} for k in range(16)]
        specs += [{"kind": "cli", "examples": 800, "seed": seed * 1000 + 100 + k} for k in range(8)]
        specs += [{"kind": "cli-fixed"}]
        big = [[io, ia, False, sn, mp] for io in (True, False) for ia in (True, False) for sn in (True, False) for mp in (True, False)]
        specs += [{"kind": "assembly", "file": "6g90_1.cif", "copies": 12, "opts": [o]} for o in big]
        specs += [{"kind": "assembly", "file": "4qln.cif", "copies": 20, "opts": [o]} for o in big[:4]]
        specs += [{"kind": "ensemble", "files": [f], "copies": [5, 8, 12, 20], "amps": [0.2, 0.35, 0.8, 1.5]} for f in corpus.SMALL[:6]]
    return specs


def run_shard(spec) -> ShardResult:
    from hypothesis import strategies as st

    res = ShardResult()
    if spec["kind"] == "files":
        for f in spec["files"]:
            if f not in corpus.all_files():
                continue
            case = {"file": f}
            check_case(PROP_ID, oracle, case, res, to_json=to_json)
            nt, labs = classify(case)
            res.note_case({"file": f, **case.get("_info", {})}, nt, labs)
    elif spec["kind"] == "cli-fixed":
        # two residues with three planted clashes whose occupancy sums differ, in both orders of the sums, and a third
        # residue of another chain clashing with the first: the printed maxima must be the maxima, not the first values
        for occs in ([0.0, 0.3, 0.5, 0.7], [0.7, 0.5, 0.3, 0.0], [0.3, 0.7, 0.0, 0.5]):
            n = len(NUC_NAMES)
            case = {"kind": "cli", "residues": [{"chain": "A", "number": 1, "names": list(NUC_NAMES), "letter": "G", "resname": "G", "occ": occs},
                                                {"chain": "A", "number": 2, "names": list(NUC_NAMES), "letter": "G", "resname": "G", "occ": occs},
                                                {"chain": "B", "number": 1, "names": list(NUC_NAMES), "letter": "G", "resname": "G", "occ": occs[::-1]}],
                    "plants": [[0, n, -0.3, 0, False], [1, n + 1, -0.3, 1, False], [2, n + 2, -0.3, 2, False], [3, 2 * n + 3, -0.3, 0, False], [4, 2 * n, -0.3, 1, False]],
                    "cli_options": [[True, False, False, False, False], [True, False, False, False, True], [True, True, False, False, True], [False, False, False, False, True]]}
            check_case(PROP_ID, oracle, case, res, to_json=to_json)
            nt, labs = classify(case)
            res.note_case(to_json(case), True, labs + ["constructed-several-clashes-per-residue-pair"], sample_cap=1)
    elif spec["kind"] == "assembly":
        if spec["file"] in corpus.all_files():
            case = {"kind": "assembly", "file": spec["file"], "copies": spec["copies"], "opts": spec["opts"]}
            check_case(PROP_ID, oracle, case, res, to_json=to_json)
            info = case.get("_info", {})
            res.note_case({**to_json(case), **info}, info.get("clashes", 0) >= 3, ["assembly-of-translated-copies", f"atoms={info.get('atoms', 0) // 10000 * 10000}+"])
    elif spec["kind"] == "ensemble":
        for f in spec["files"]:
            for copies in spec["copies"]:
                for amp in spec["amps"]:
                    for first, span, partial in ((0, 2, False), (3, 3, True), (7, 4, False)):
                        case = {"kind": "ensemble", "file": f, "copies": copies, "amp": amp, "first": first, "span": span, "partial": partial, "opts": spec.get("opts")}
                        check_case(PROP_ID, oracle, case, res, to_json=to_json)
                        info = case.get("_info", {})
                        res.note_case(to_json(case), info.get("clashes", 0) > 0, ["ensemble-pooled-conformers", f"conformers={copies}"], sample_cap=1)
                        res.extra["max_atoms_in_an_ensemble"] = max(res.extra.get("max_atoms_in_an_ensemble", 0), info.get("atoms", 0))
        res.exhaustive = False
    elif spec["kind"] == "synthetic":
        run_hypothesis(PROP_ID, st_cases(), oracle, seed=spec["seed"], max_examples=spec["examples"], result=res,
                       to_json=to_json, classify=classify, sample_cap=1)
    elif spec["kind"] == "cli":
        strat = st.tuples(st_cases(), st.lists(st.lists(st.booleans(), min_size=5, max_size=5), min_size=1, max_size=3)).map(
            lambda t: dict(t[0], kind="cli", cli_options=t[1], entities=[None, "tables", "with-ligand", "with-ligand"][(len(t[1]) + sum(map(sum, t[1]))) % 4]))
        run_hypothesis(PROP_ID, strat, oracle, seed=spec["seed"], max_examples=spec["examples"], result=res,
                       to_json=to_json, classify=classify, sample_cap=1)
    else:
        raise HarnessError(spec["kind"])
    res.extra["option_sets_per_structure"] = 0
    res.exhaustive = False
    return res


def coverage_extra(tier):
    return {"option_combinations_enumerated": 32}


def replay(case):
    return oracle(dict(case))
