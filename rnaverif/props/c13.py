"""C13 - dot-bracket generation survives every solver configuration and solver fault."""

from __future__ import annotations

from rnaverif import ssref
from rnaverif.props.c01 import check_notation
from rnaverif.runner import D, HarnessError, ShardResult, run_hypothesis

PROP_ID = "C13"
LEVEL = "fault_enumeration"
BEHAVIOURS = ["ok", "near", "raise", "notsolved", "infeasible", "unbounded", "undefined"]
OK_BEHAVIOURS = ("ok", "near")
CONFIGS = ["highs", "cbc"]
VARMODES = ["unset", "half", "garbage"]
GRID = [(c, b, "unset") for c in CONFIGS for b in BEHAVIOURS] + [("none", "ok", "unset")]
# both back-ends present: HiGHS is selected and shows the listed behaviour while the bundled solver behind it
# (pulp.LpSolverDefault) works, raises or gives up - the selected solver's fault must lead to FCFS whatever the other does
BOTH_GRID = [(b, d) for b in BEHAVIOURS for d in ("ok", "raise", "notsolved")]
RULE = (
    "Fault injection at the PuLP API boundary from the harness process (no repo hook): pulp.HiGHS_CMD is replaced "
    "by a scripted class answering available()=True/False, pulp.LpSolverDefault by a scripted LpSolver or None. "
    "A scripted solver either delegates to the real bundled CBC (ok), delegates and reports the integer variables only "
    "within the integrality tolerance as real solvers do (near: 0.999999998 for 1), raises PulpSolverError, or assigns status "
    "NotSolved/Infeasible/Unbounded/Undefined leaving the variables unset, half-set or set to garbage. For every "
    "generated structure the complete 15-cell grid (plus 21 cells with BOTH back-ends present: HiGHS selected with each of the 7 behaviours x the bundled solver behind it working / raising / giving up) {HiGHS selected, CBC selected} x 7 behaviours + {no solver} is "
    "enumerated through BpSeq.dot_bracket (fresh object per cell) and through convert_to_dot_bracket(solver); then "
    "a drawn fault sequence of 1-4 steps is run on ONE shared scripted solver. Oracle: never raises; result passes "
    "the C01 lossless oracle; faulty step => structure == FCFS of a fresh object; ok step => C02 optimal score. "
    "Non-trivial: >=1 faulty step on a structure with >=2 crossing stems; distinct = distinct (structure, script)."
)
ASSUMPTIONS = [
    "no HiGHS binary exists in the sandbox: 'HiGHS selected' is a scripted stand-in whose ok behaviour delegates to CBC, so rnapolis's selection and fallback logic is exercised, not HiGHS itself",
    "fault behaviours are the ones the property lists (error raised, four non-optimal statuses, normal return); arbitrary wrong-but-'optimal' solver output is outside the property",
    "trusted: PuLP's LpProblem.solve/assignStatus plumbing, rnaverif/ssref.py",
]


def _make_scripted(pulp):
    class Scripted(pulp.LpSolver):
        name = "SCRIPTED"

        def __init__(self, script=None, **kw):
            super().__init__(msg=False)
            self.script = list(script or [])
            self.calls = 0
            self.requests = -1  # index of the request being served (see begin)
            self.used = []  # per request: the behaviours its solver calls met
            self.real = pulp.PULP_CBC_CMD(msg=False)

        def begin(self):
            """a new request (one dot-bracket asked for) starts: its first solver call meets the step's behaviour,
            further calls within the same request (an implementation may solve in parts or retry) meet the step's
            'later' behaviours in turn (default: the same behaviour again)"""
            self.requests += 1
            self.used.append([])

        def available(self):
            return True

        def actualSolve(self, lp, **kw):
            step = self.script[min(max(self.requests, 0), len(self.script) - 1)]
            beh, varmode = step[0], step[1]
            later = step[2] if len(step) > 2 and step[2] else None
            if not self.used:
                self.used.append([])
            k = len(self.used[-1])
            if k >= 1 and later:
                beh = later[(k - 1) % len(later)]
            self.used[-1].append(beh)
            self.calls += 1
            if beh == "ok":
                return self.real.actualSolve(lp)
            if beh == "near":
                # a normal return whose integer variables are integral only within the usual MILP integrality
                # tolerance (1e-6), as HiGHS and CBC report them: 0.999999998 for 1, 1e-9 for 0
                status = self.real.actualSolve(lp)
                for v in lp.variables():
                    if v.varValue is not None:
                        v.varValue = v.varValue * (1 - 2e-9) + 1e-9
                return status
            if beh == "raise":
                raise pulp.PulpSolverError("injected solver failure")
            status = {"notsolved": pulp.LpStatusNotSolved, "infeasible": pulp.LpStatusInfeasible,
                      "unbounded": pulp.LpStatusUnbounded, "undefined": pulp.LpStatusUndefined}[beh]
            vs = lp.variables()
            for k, v in enumerate(vs):
                if varmode == "unset":
                    v.varValue = None
                elif varmode == "half":
                    v.varValue = 1 if k % 2 == 0 else None
                elif varmode == "zero":  # a solver stopped before its first solution leaves every variable at 0
                    v.varValue = 0
                else:
                    v.varValue = 1
            lp.assignStatus(status)
            return status

    return Scripted


def _run_cell(seq, pairs, config, script, via):
    """returns (DotBracket results list) for one configuration; script is a list of (behaviour, varmode)."""
    import pulp
    import rnapolis.common as common

    Scripted = _make_scripted(pulp)
    text = ssref.bpseq_text(seq, pairs)
    saved = (pulp.HiGHS_CMD, pulp.LpSolverDefault)
    shared = Scripted(script)
    results = []
    try:
        class NoHighs:
            def __init__(self, *a, **k):
                pass

            def available(self):
                return False

        if config == "highs":
            class FakeHighs:
                def __new__(cls, *a, **k):
                    return shared

            pulp.HiGHS_CMD = FakeHighs
            pulp.LpSolverDefault = None
        elif config == "cbc":
            pulp.HiGHS_CMD = NoHighs
            pulp.LpSolverDefault = shared
        elif config.startswith("both:"):
            class FakeHighs2:
                def __new__(cls, *a, **k):
                    return shared

            pulp.HiGHS_CMD = FakeHighs2
            pulp.LpSolverDefault = Scripted([(config.split(":", 1)[1], "unset")])
        elif config == "none":
            pulp.HiGHS_CMD = NoHighs
            pulp.LpSolverDefault = None
        else:
            raise HarnessError(config)
        for _ in script:
            b = common.BpSeq.from_string(text)
            shared.begin()
            if via == "property":
                results.append(b.dot_bracket)
            else:
                solver = None if config == "none" else shared
                results.append(b.convert_to_dot_bracket(solver))
    finally:
        pulp.HiGHS_CMD, pulp.LpSolverDefault = saved
    return results, shared.used


def _judge(tag, db, beh, seq, pairs, fcfs_structure, st, g, opt):
    out = check_notation(tag, db, seq, pairs)
    out = [D(d.sig.replace("C01:", "C13:"), d.what) for d in out]
    s = getattr(db, "structure", None)
    if not isinstance(s, str):
        return out
    if beh == "mixed":
        # within ONE request some solver calls delivered an optimum and others did not: either the solver "could not
        # deliver" (=> FCFS) or, after a retry, it did (=> an optimal notation); a mixture that is neither is wrong
        if s != fcfs_structure:
            lv = ssref.stem_levels_from_structure(s, st)
            if opt is not None and not (lv is not None and ssref.is_proper(lv, g) and ssref.score(lv, st) >= opt):
                out.append(D(f"C13:{tag}:partial-fault-neither-fcfs-nor-optimal", f"got {s!r}, FCFS is {fcfs_structure!r}, optimum scores {opt}"))
    elif beh != "ok":
        if s != fcfs_structure:
            out.append(D(f"C13:{tag}:fault-not-fcfs", f"behaviour {beh}: got {s!r}, FCFS is {fcfs_structure!r}"))
    else:
        lv = ssref.stem_levels_from_structure(s, st)
        if lv is not None and ssref.is_proper(lv, g) and opt is not None and ssref.score(lv, st) < opt:
            out.append(D(f"C13:{tag}:ok-not-optimal", f"{s!r} scores {ssref.score(lv, st)} < optimum {opt}"))
    return out


def oracle(case) -> list:
    from rnapolis.common import BpSeq

    seq, pairs = case["seq"], [tuple(p) for p in case["pairs"]]
    script = [tuple(x) for x in case.get("script", [])]
    st, g, comps = ssref.describe(seq, pairs)
    opt = ssref.optimal_score(st, g) if all(len(c) <= 10 for c in comps) else None
    fcfs_structure = BpSeq.from_string(ssref.bpseq_text(seq, pairs)).fcfs.structure
    out = []
    notes = []
    consulted_any = [False]
    knotted = bool(comps)

    def cell(config, steps, via, tag):
        try:
            results, used = _run_cell(seq, pairs, config, steps, via)
        except HarnessError:
            raise
        except Exception as exc:
            from rnaverif.runner import sut_location
            loc = sut_location(exc.__traceback__)
            out.append(D(f"C13:{tag}:raised:{type(exc).__name__}@{loc}",
                         f"config {config} steps {steps} via {via}: {type(exc).__name__}: {str(exc)[:200]}"))
            return
        used = list(used) + [[]] * (len(steps) - len(used))
        for step, db, met in zip(steps, results, used):
            if config == "none":
                verdict = "fault"
            elif not met:
                # the injected solver was not asked during this request: no fault happened, judge losslessness only
                # (a structure without crossing stems needs no solver)
                verdict = None
                if knotted:
                    notes.append(f"{tag}: scripted solver not consulted for a knotted structure")
            elif all(b in OK_BEHAVIOURS for b in met):
                verdict = "ok"
            elif not any(b in OK_BEHAVIOURS for b in met):
                verdict = "fault"
            else:
                verdict = "mixed"
                case["_mixed"] = case.get("_mixed", 0) + 1
            if met:
                consulted_any[0] = True
            if len(met) > 1:
                case["_multi_call"] = True
            if verdict is None:
                ds = [D(d.sig.replace("C01:", "C13:"), d.what) for d in check_notation(tag, db, seq, pairs)]
            else:
                ds = _judge(tag, db, verdict, seq, pairs, fcfs_structure, st, g, opt)
            out.extend(ds)

    for config, beh, varmode in GRID:
        for via in ("property", "convert"):
            cell(config, [(beh, varmode)], via, f"{via}:{config}:{beh}")
    # a solver that delivers for the first call of a request and not for later ones, and the reverse (only an
    # implementation that asks more than once per request meets the second behaviour)
    for config in CONFIGS:
        for first, later in (("ok", "notsolved"), ("notsolved", "ok"), ("ok", "raise"), ("infeasible", "near")):
            for via in ("property", "convert"):
                cell(config, [(first, "unset", [later])], via, f"{via}:{config}:{first}-then-{later}")
    for beh, dflt in BOTH_GRID:
        for via in ("property", "convert"):
            cell(f"both:{dflt}", [(beh, "unset")], via, f"{via}:highs+default-{dflt}:{beh}")
    # drawn fault sequence on one shared solver
    if script:
        cfg = script[0][0]
        steps = [tuple(x[1:]) for x in script]
        for via in ("property", "convert"):
            cell(cfg, steps, via, f"{via}:sequence")
    # a second molecule with the same stems but other letters and a longer 3' tail asks right afterwards: what it gets must
    # be ITS notation (state remembered from one request to the next, keyed by the stems alone, would show here)
    if knotted:
        rot = {"A": "C", "C": "G", "G": "U", "U": "A"}
        seq0, pairs0 = seq, pairs
        seq = "".join(rot.get(c.upper(), "A") for c in seq0) + "AC"
        fcfs_structure = fcfs_structure + ".."
        for via in ("property", "convert"):
            cell("cbc", [("ok", "unset")], via, f"{via}:twin-with-other-letters-and-tail")
            cell("cbc", [("notsolved", "unset")], via, f"{via}:twin-with-other-letters-and-tail:notsolved")
        seq = seq0
    if notes and not out and not consulted_any[0]:
        raise HarnessError("cannot inject solver faults: " + "; ".join(notes[:3]))
    return out


def classify(case):
    seq, pairs = case["seq"], case["pairs"]
    st, g, comps = ssref.describe(seq, [tuple(p) for p in pairs])
    labs = ["knotted" if comps else "nested"]
    script = case.get("script", [])
    faulty = [s for s in script if s[1] not in OK_BEHAVIOURS]
    if len(script) >= 2:
        labs.append("sequence>=2")
    if faulty and any(s[1] in OK_BEHAVIOURS for s in script):
        labs.append("sequence-mixes-ok-and-fault")
    for s in script:
        labs.append(f"beh:{s[1]}")
    if len(comps) >= 2:
        labs.append("independent-knots>=2")
    if any(len(s) > 3 and s[3] for s in script):
        labs.append("later-calls-of-a-request-behave-differently")
    if case.get("_multi_call"):
        labs.append("several-solver-calls-in-one-request")
    return bool(comps), labs


def plan(tier, seed):
    # stars: one stem crossing 29..36 others (the level bound passes the number of bracket kinds), each its own shard
    if tier == "quick":
        return [{"kind": "faults", "examples": 40, "seed": seed * 1000 + k} for k in range(14)] + \
               [{"kind": "stars", "ks": [k]} for k in (29, 30, 31, 33)] + [{"kind": "stars", "ks": [k], "ladder": True} for k in (11, 12)]
    return [{"kind": "faults", "examples": 600, "seed": seed * 1000 + k} for k in range(16)] + \
           [{"kind": "stars", "ks": [k], "stem_len": sl} for k in range(28, 37) for sl in (1, 2)] + \
           [{"kind": "stars", "ks": [k], "stem_len": sl, "ladder": True} for k in (10, 11, 12, 13, 15, 21) for sl in (1, 2)]


def run_shard(spec) -> ShardResult:
    from hypothesis import strategies as st

    res = ShardResult()
    if spec["kind"] == "stars":
        from rnaverif.runner import check_case

        for k in spec["ks"]:
            # ladder: k MUTUALLY crossing stems - the notation needs k levels (two-digit level numbers from k = 11 on)
            seq, pairs = ssref.ladder(k, spec.get("stem_len", 2), 1) if spec.get("ladder") else ssref.star(k, spec.get("stem_len", 1))
            case = {"seq": seq, "pairs": [list(p) for p in pairs], "script": [["cbc", "ok", "unset", None], ["cbc", "notsolved", "unset", None]]}
            check_case(PROP_ID, oracle, case, res)
            res.note_case({"ladder" if spec.get("ladder") else "star": k, "stem_len": spec.get("stem_len", 1)}, True,
                          [f"{k}-mutually-crossing-stems"] if spec.get("ladder") else [f"one-stem-crossing-{'>=30' if k >= 30 else '<30'}-others"])
        res.exhaustive = False
        return res
    # a step: behaviour of the first solver call of a request, how variables are left, and the behaviours that any
    # FURTHER call within the same request meets (None: the same again) - a solver that fails only sometimes
    step = st.tuples(st.sampled_from(BEHAVIOURS), st.sampled_from(VARMODES),
                     st.one_of(st.none(), st.none(), st.lists(st.sampled_from(BEHAVIOURS), min_size=1, max_size=3)))

    def assemble(t):
        (seq, pairs), cfg, steps, copies = t
        n = len(seq)
        # the same motif again further along the strand: independent groups of crossing stems in one structure
        pairs = [[i + c * n, j + c * n] for c in range(copies) for i, j in pairs]
        return {"seq": seq * copies, "pairs": pairs, "script": [[cfg, b, v, l] for b, v, l in steps]}

    strat = st.tuples(
        st.one_of(ssref.st_structures(max_abstract=6, max_stem=4, min_abstract=2),
                  ssref.st_structures(max_abstract=3, max_stem=3, min_abstract=0)),
        st.sampled_from(CONFIGS),
        st.lists(step, min_size=1, max_size=4),
        st.sampled_from([1, 1, 2, 3]),
    ).map(assemble)
    run_hypothesis(PROP_ID, strat, oracle, seed=spec["seed"], max_examples=spec["examples"], result=res,
                   classify=classify)
    res.extra["grid_cells_per_structure"] = 0
    res.extra["fault_cells_executed"] = res.evaluations * len(GRID) * 2
    res.exhaustive = False
    return res


def coverage_extra(tier):
    return {"grid": [list(x[:2]) for x in GRID],
            "explanation": "the 15-cell configuration x behaviour grid is enumerated completely for every generated structure, through both entry points"}


def replay(case):
    return oracle(case)
