"""C05 - annotation depends only on internal geometry and identity, not on presentation."""

from __future__ import annotations

import os
import re

import json
import math

import numpy as np

from rnaverif import atomtab, corpus, gen3d, geomref
from rnaverif.runner import D, HarnessError, ShardResult, WORK_DIR, run_hypothesis

PROP_ID = "C05"
LEVEL = "exploration"
RULE = (
    "Corpus structures (quick: 12 files; thorough: all that fit) under Hypothesis-drawn transformations: "
    "(1) proper rotation (uniform quaternion or one of the 24 exact axis permutations) + translation up to +-500 A; "
    "(2) permutation of the atoms inside every residue (on the parsed structure; and at file level: residues given two alternate "
    "locations whose records are written adjacent, in blocks A..B.. or B..A..); (3) order-preserving chain renaming and per-chain strictly "
    "increasing residue renumbering (constant offset when gap detection is on; also onto shared numbers with insertion "
    "codes 57, 57A, 57B, ... with author-only identities as PDB input has); (4) re-serialisation of the same "
    "atoms (coordinates rounded to 3 decimals) as PDB and as mmCIF by the harness emitters, read back through "
    "read_3d_structure, at the deposited position and (4') after a drawn axis rotation + translation by 0/-150/-300/-700/"
    "+300/+900/+1500 A per axis, so that coordinates fill their PDB columns (<= -100, >= 1000); combinations of (1)-(3) are drawn together. Oracle (metamorphic): the complete result of "
    "extract_secondary_structure (base pairs with LW+Saenger, stackings with topology, BPh, BR, BPSEQ, dot-bracket, "
    "extended dot-bracket, element lists), with and without gap detection, is equal after mapping identities "
    "through the drawn renaming. A difference is reported only when the minimum margin of every decision quantity "
    "(reference model of C03/C04/C11) exceeds 1e-6; otherwise the case is counted as undecided. Non-trivial: "
    "non-identity transformation of a structure whose annotation has >=1 base pair, >=1 stacking and >=1 BPh/BR "
    "contact; distinct = distinct (file, transformation)."
)
ASSUMPTIONS = [
    "only real transformations through unmodified code count; an artificially shuffled contact enumeration order is not in the quantifier",
    "PDB/mmCIF relation compares the two harness-emitted files with each other (identical decimal coordinates), on files whose identities fit PDB field widths",
    "margins below 1e-6 (A or degrees) are undecided",
    "trusted: NumPy, harness emitters in rnaverif/atomtab.py (self-checked against their decoders)",
]

_cache = {}


def annotate(s3, find_gaps):
    from rnapolis.annotator import extract_secondary_structure

    s2, dbs = extract_secondary_structure(s3, None, find_gaps, False)
    return s2


def normalise(s2, ident_map=None, chain_map=None):
    """hashable/comparable summary; ident_map maps (chain, number, icode) -> canonical identity"""
    def idn(nt):
        k = (nt.chain, nt.number, nt.icode)
        return ident_map[k] if ident_map is not None else k

    bi = s2.baseInteractions
    out = {
        "basePairs": [(idn(b.nt1), idn(b.nt2), b.lw.value, b.saenger.value if b.saenger else None) for b in bi.basePairs],
        "stackings": [(idn(s.nt1), idn(s.nt2), s.topology.value if s.topology else None) for s in bi.stackings],
        "basePhosphate": sorted((idn(x.nt1), idn(x.nt2), x.bph.value if x.bph else None) for x in bi.basePhosphateInteractions),
        "baseRibose": sorted((idn(x.nt1), idn(x.nt2), x.br.value if x.br else None) for x in bi.baseRiboseInteractions),
        "bpseq": s2.bpseq,
        "elements": [str(e) for part in (s2.stems, s2.singleStrands, s2.hairpins, s2.loops) for e in part],
    }

    def unchain(text):
        if chain_map is None:
            return text
        inv = {v: k for k, v in chain_map.items()}
        # chain names may be blank or contain spaces (PDB files with an empty chain column)
        return re.sub(r">strand_([^\n]*)", lambda m: ">strand_" + inv.get(m.group(1), m.group(1)), text)

    out["dotBracket"] = unchain(s2.dotBracket)
    out["extendedDotBracket"] = unchain(s2.extendedDotBracket)
    return out


def diff(a, b):
    out = []
    for k in a:
        if a[k] != b[k]:
            if isinstance(a[k], list):
                sa, sb = set(map(str, a[k])), set(map(str, b[k]))
                only_a, only_b = sorted(sa - sb)[:2], sorted(sb - sa)[:2]
                out.append((k, f"only original: {only_a}; only transformed: {only_b}" if (only_a or only_b) else "same members, different order"))
            else:
                out.append((k, "texts differ"))
    return out


def min_margin(s3):
    from rnaverif.props import c03, c04, c11
    m = float("inf")
    for mod in (c03, c04, c11):
        _, info = mod.evaluate(s3) if mod is not c11 else mod.evaluate(s3, (None,))
        m = min(m, info["min_margin"])
    return m


def original(fn, find_gaps):
    key = (fn, find_gaps)
    if key not in _cache:
        s3 = corpus.structure(fn)
        _cache[key] = normalise(annotate(s3, find_gaps))
    return _cache[key]


_thin_cache = {}


def base_structure(case):
    """the corpus structure, or - thin_purines - the same with drawn purines modelled incompletely (no phosphate group and
    either no O5', C5', N2 or only six base atoms): residues at the border of what counts as a nucleotide, whose
    classification must not depend on how their atoms are listed either"""
    fn = case["file"]
    thin = case.get("thin_purines")
    if case.get("align"):
        return aligned_structure(fn, case["align"])
    if not thin:
        return corpus.structure(fn)
    key = (fn, json.dumps(thin))
    if key not in _thin_cache:
        s3 = corpus.structure(fn)
        n = len(s3.residues)
        plan = {}
        for idx, how in thin:
            r = s3.residues[idx % n]
            if r.one_letter_name.upper() in ("A", "G"):
                plan[idx % n] = how
        phosphate = {"P", "OP1", "OP2", "OP3", "O1P", "O2P", "O3P"}
        six = {"N9", "C8", "N7", "C4", "N1", "C2"}
        sugar = {"C1'", "C2'", "C3'", "C4'", "C5'", "O2'", "O3'", "O4'", "O5'"}

        def ak(ri, k):
            if ri not in plan:
                return True
            name = s3.residues[ri].atoms[k].name
            if name in phosphate:
                return False
            if plan[ri] == "no-O5-C5-N2":
                return name not in ("O5'", "C5'", "N2")
            return name in six or name in sugar

        _thin_cache[key] = gen3d.rebuild(s3, atom_keep=ak if plan else None)
    return _thin_cache[key]


_contacts_cache = {}


def base_contacts(fn):
    """(residue index, atom index, residue index, atom index) of every N/O base-atom pair of two different residues
    closer than 3.4 A (the donor-acceptor contacts an annotation rests on), in file order"""
    if fn not in _contacts_cache:
        s3 = corpus.structure(fn)
        pts, owner = [], []
        for ri, r in enumerate(s3.residues):
            for k, a in enumerate(r.atoms):
                if "'" not in a.name and a.name[0] in "NO" and not a.name.startswith("OP") and a.name not in ("O1P", "O2P", "O3P"):
                    pts.append((a.x, a.y, a.z))
                    owner.append((ri, k))
        out = []
        if pts:
            from scipy.spatial import cKDTree

            for i, j in sorted(cKDTree(np.array(pts)).query_pairs(3.4)):
                if owner[i][0] != owner[j][0]:
                    out.append(owner[i] + owner[j])
        _contacts_cache[fn] = out
    return _contacts_cache[fn]


_aligned_cache = {}


def aligned_structure(fn, align):
    """the corpus structure in an orientation where the two atoms of one base-base contact have EXACTLY the same x, y or
    z (axis drawn; rotated about that axis by a drawn angle besides), written on the 0.001 A grid of a coordinate file:
    what one contact in a few thousand looks like in deposited files, and every contact of an idealised planar model.
    The structure so obtained is the INPUT; its annotation is compared with that of a generically moved copy of itself"""
    key = (fn, json.dumps(align))
    if key not in _aligned_cache:
        s3 = corpus.structure(fn)
        contacts = base_contacts(fn)
        if not contacts:
            _aligned_cache[key] = s3
            return s3
        ri, ka, rj, kb = contacts[align[0] % len(contacts)]
        axis, theta = align[1] % 3, float(align[2])
        a, b = s3.residues[ri].atoms[ka], s3.residues[rj].atoms[kb]
        v = np.array([b.x - a.x, b.y - a.y, b.z - a.z])
        u = v / np.linalg.norm(v)
        w = np.zeros(3)
        w[(axis + 1) % 3] = 1.0
        # rotation taking u to w (Rodrigues), then a turn by theta about the chosen axis: the contact stays normal to it
        c = float(np.dot(u, w))
        if c < -0.999999:
            R0 = -np.eye(3)
            R0[axis, axis] = 1.0
        else:
            x = np.cross(u, w)
            K = np.array([[0, -x[2], x[1]], [x[2], 0, -x[0]], [-x[1], x[0], 0]])
            R0 = np.eye(3) + K + K @ K / (1 + c)
        e = np.zeros(3)
        e[axis] = 1.0
        K = np.array([[0, -e[2], e[1]], [e[2], 0, -e[0]], [-e[1], e[0], 0]])
        R = (np.eye(3) + math.sin(theta) * K + (1 - math.cos(theta)) * K @ K) @ R0
        pa = R @ np.array([a.x, a.y, a.z])
        t = np.zeros(3)
        t[axis] = 0.0002 - (pa[axis] % 0.001)  # both atoms well inside one cell of the grid along that axis
        out = gen3d.rebuild(s3, point_fn=lambda xyz, r_, k_: R @ xyz + t, round_to=3)
        qa, qb = out.residues[ri].atoms[ka], out.residues[rj].atoms[kb]
        if (qa.x, qa.y, qa.z)[axis] != (qb.x, qb.y, qb.z)[axis]:
            raise HarnessError("aligned contact does not coincide on its axis")
        _aligned_cache.clear()  # one structure at a time is enough
        _aligned_cache[key] = out
    return _aligned_cache[key]


def transform(case):
    """returns (s3', ident_map new->old, chain_map old->new)"""
    fn = case["file"]
    s3 = base_structure(case)
    R = np.array(case["rot"], dtype=float)
    if abs(np.linalg.det(R) - 1) > 1e-9:
        raise HarnessError("rotation not proper")
    t = np.array(case["shift"], dtype=float)
    chains = sorted({r.chain for r in s3.residues})
    chain_map = None
    if case.get("rename_chains"):
        # order-preserving: same prefix for all chains
        chain_map = {c: case["rename_chains"] + c for c in chains}
    a, b = case.get("renumber", [1, 0])
    if case["find_gaps"]:
        a = 1
    number_fn = (lambda ch, n: a * n + b) if (a, b) != (1, 0) else None
    perm_seed = case.get("atom_perm_seed")
    rng = np.random.default_rng(perm_seed) if perm_seed is not None else None
    perms = {}
    if rng is not None:
        for ri, r in enumerate(s3.residues):
            perms[ri] = list(rng.permutation(len(r.atoms)))
    ident_fn = None
    runs = case.get("icode_runs", 0)
    if runs and not case["find_gaps"]:
        # order-preserving renumbering onto shared numbers with insertion codes (57, 57A, 57B, 58, ...): the residues of
        # a chain, in the order of their (number, insertion code), get number first + rank // runs and code by rank % runs
        by_chain = {}
        for ri, r in enumerate(s3.residues):
            by_chain.setdefault(r.chain, []).append((r.number, r.icode or " ", ri))
        new_id = {}
        for ch, lst in by_chain.items():
            lst.sort()
            first = lst[0][0]
            for rank, (_, _, ri) in enumerate(lst):
                new_id[ri] = ((chain_map or {}).get(ch, ch), first + rank // runs, None if rank % runs == 0 else chr(64 + rank % runs))
        ident_fn = lambda ri, ch, num: new_id[ri]
        number_fn = None
    new = gen3d.rebuild(s3, point_fn=lambda xyz, ri, k: R @ xyz + t,
                        atom_order=(lambda ri, n: perms[ri]) if rng is not None else None,
                        chain_map=chain_map, number_fn=number_fn, ident_fn=ident_fn)
    ident_map = {}
    for r_old, r_new in zip(s3.residues, new.residues):
        ident_map[(r_new.chain, r_new.number, r_new.icode)] = (r_old.chain, r_old.number, r_old.icode)
    return new, ident_map, chain_map


def oracle_transform(case):
    fn = case["file"]
    fg = case["find_gaps"]
    ref = original(fn, fg) if not (case.get("thin_purines") or case.get("align")) else normalise(annotate(base_structure(case), fg))
    s3n, ident_map, chain_map = transform(case)
    got = normalise(annotate(s3n, fg), ident_map, chain_map)
    # identities in `ref` are the original ones already
    dd = diff(ref, got)
    info = case.setdefault("_info", {})
    base = ref
    info["nt"] = bool(base["basePairs"]) and bool(base["stackings"]) and bool(base["basePhosphate"] or base["baseRibose"])
    if not dd:
        return []
    m = min(min_margin(base_structure(case)), min_margin(s3n))
    if m <= geomref.EPS:
        info["undecided"] = True
        return []
    kinds = []
    if not np.allclose(np.array(case["rot"]), np.eye(3)) or any(case["shift"]):
        kinds.append("rigid-motion")
    if case.get("atom_perm_seed") is not None:
        kinds.append("atom-order")
    if case.get("rename_chains") or tuple(case.get("renumber", [1, 0])) != (1, 0):
        kinds.append("relabelling")
    return [D(f"C05:{k}:changes-under-transformation", f"{fn} ({'+'.join(kinds) or 'identity'}; min margin {m:.2e}): {what}") for k, what in dd]


def table_from_structure(s3):
    atoms = []
    serial = 1
    for r in s3.residues:
        if r.auth is None:
            return None
        au = r.auth
        if len(au.chain) != 1 or au.chain.isspace() or len(au.name) > 3 or not (-999 <= au.number <= 9999) or (au.icode and len(au.icode) != 1):
            return None
        for a in r.atoms:
            if len(a.name) > 4 or not a.name:
                return None
            atoms.append({"record": "ATOM", "serial": serial, "name": a.name, "altloc": "", "resname": au.name, "chain": au.chain,
                          "resseq": au.number, "icode": au.icode or "", "x": round(a.x, 3), "y": round(a.y, 3), "z": round(a.z, 3),
                          "occ": 1.0 if a.occupancy is None else round(a.occupancy, 2), "bfac": 0.0,
                          "element": atomtab.element_of(a.name), "charge": 0, "model": 1})
            serial += 1
            if serial > 99999:
                return None
    return atoms


def oracle_formats(case):
    from rnapolis.parser import read_3d_structure

    fn = case["file"]
    s3 = corpus.structure(fn)
    atoms = table_from_structure(s3)
    info = case.setdefault("_info", {})
    if atoms is None:
        info["skipped"] = True
        return []
    if case.get("rot") is not None or case.get("shift"):
        # the format relation composed with a rigid motion: the same moved atoms, rounded once to 3 decimals, are
        # written in both formats (coordinates must still fit the PDB columns)
        R = gen3d.AXIS_ROTATIONS[case["rot"]] if case.get("rot") is not None else np.eye(3)
        P = np.array([[a["x"], a["y"], a["z"]] for a in atoms])
        c = P.mean(axis=0)
        Q = (P - c) @ np.array(R).T + c + np.array(case.get("shift") or [0.0, 0.0, 0.0])
        if Q.min() < -999.0 or Q.max() > 9999.0:
            info["skipped"] = True
            return []
        for a, q in zip(atoms, Q):
            a["x"], a["y"], a["z"] = round(float(q[0]), 3), round(float(q[1]), 3), round(float(q[2]), 3)
        info["moved"] = True
        info["wide-coordinates"] = bool(Q.min() <= -100.0 or Q.max() >= 1000.0)
    if case.get("first_serial") or case.get("hetatm"):
        # atom ids as a fragment cut from a large entry keeps them (five digits fill the serial column right up to the
        # record name) and non-standard residues written as HETATM records, as deposited files have them
        first = case.get("first_serial") or 1
        if first + len(atoms) > 99999:
            info["skipped"] = True
            return []
        order = []
        for a in atoms:
            key = (a["chain"], a["resseq"], a["icode"])
            if key not in order:
                order.append(key)
        third = {key for i, key in enumerate(order) if i % 3 == 2}
        for k, a in enumerate(atoms):
            a["serial"] = first + k
            if (case.get("hetatm") == "nonstandard" and a["resname"] not in ("A", "C", "G", "U", "DA", "DC", "DG", "DT")) or \
                    (case.get("hetatm") == "every-third-residue" and (a["chain"], a["resseq"], a["icode"]) in third):
                a["record"] = "HETATM"
        info["five-digit-serials"] = first + len(atoms) > 10000
    if case.get("offset"):
        # the format relation composed with a renumbering: author numbers shifted by a constant (leader sequences and
        # tags are numbered below zero), the same numbers written in both formats
        nums = [a["resseq"] + case["offset"] for a in atoms]
        if min(nums) < -999 or max(nums) > 9999:
            info["skipped"] = True
            return []
        for a, n in zip(atoms, nums):
            a["resseq"] = n
        info["negative-numbers"] = min(nums) < 0
    modres = []
    if case.get("thio"):
        # drawn uridines become 4-thiouridines (4SU: S4 in place of O4, HETATM records) - a modified residue whose base
        # cannot be told from its atom names alone. The PDB text announces it in MODRES records (parent U), as deposited
        # files do; the mmCIF carries the same atoms under the same names
        order = []
        for a in atoms:
            key = (a["chain"], a["resseq"], a["icode"])
            if a["resname"] == "U" and key not in order:
                order.append(key)
        chosen = {order[t % len(order)] for t in case["thio"]} if order else set()
        for a in atoms:
            if (a["chain"], a["resseq"], a["icode"]) in chosen:
                a["resname"], a["record"] = "4SU", "HETATM"
                if a["name"] == "O4":
                    a["name"], a["element"] = "S4", "S"
        for ch, num, ic in sorted(chosen):
            modres.append(f"MODRES 1XXX 4SU {ch} {num:>4}{ic or ' '}   U  4-THIOURIDINE-5'-MONOPHOSPHATE")
        info["modres"] = bool(chosen)
    request = None
    if case.get("ensemble"):
        # the molecule as one model of an ensemble: the other models are the same atoms blown up by 25 % about the
        # centroid (hardly any interaction survives that), the native copy sits at the drawn position and is the model
        # that is asked for - in both formats
        n_models, where = case["ensemble"]
        where = where % n_models
        P = np.array([[a["x"], a["y"], a["z"]] for a in atoms])
        c = P.mean(axis=0)
        Q = (P - c) * 1.25 + c
        if Q.min() < -999.0 or Q.max() > 9999.0 or len(atoms) * n_models > 99999:
            info["skipped"] = True
            return []
        blown = [dict(a, x=round(float(q[0]), 3), y=round(float(q[1]), 3), z=round(float(q[2]), 3)) for a, q in zip(atoms, Q)]
        numbers = case.get("model_numbers") or list(range(1, n_models + 1))
        numbers = (numbers + [max(numbers) + 1 + k for k in range(n_models)])[:n_models]
        ens = []
        for k in range(n_models):
            ens += [dict(a, model=numbers[k]) for a in (atoms if k == where else blown)]
        atoms = ens
        request = numbers[where]
        info["ensemble"] = True
        info["later-model-requested"] = where > 0
    os.makedirs(WORK_DIR, exist_ok=True)
    base = os.path.join(WORK_DIR, f"c05_{os.getpid()}")
    results = {}
    structs = {}
    try:
        for ext, text in (("pdb", "".join(m + "\n" for m in modres) + atomtab.emit_pdb(atoms, always_model=bool(request))), ("cif", atomtab.emit_cif(atoms, case.get("null", "?")))):
            p = f"{base}.{ext}"
            with open(p, "w") as f:
                f.write(text)
            with open(p) as f:
                structs[ext] = read_3d_structure(f, request)
            results[ext] = {fg: normalise(annotate(structs[ext], fg)) for fg in (False, True)}
    finally:
        for ext in ("pdb", "cif"):
            try:
                os.remove(f"{base}.{ext}")
            except OSError:
                pass
    out = []
    b = results["pdb"][False]
    info["nt"] = bool(b["basePairs"]) and bool(b["stackings"]) and bool(b["basePhosphate"] or b["baseRibose"])
    for fg in (False, True):
        dd = diff(results["pdb"][fg], results["cif"][fg])
        if dd:
            m = min(min_margin(structs["pdb"]), min_margin(structs["cif"]))
            if m <= geomref.EPS:
                info["undecided"] = True
                continue
            for k, what in dd:
                out.append(D(f"C05:{k}:pdb-vs-mmcif", f"{fn} (find_gaps={fg}): PDB and mmCIF of the same atoms annotate differently: {what}"))
    return out


def oracle_altloc_order(case):
    """the same atom records, some residues carrying two alternate locations (0.7 / 0.3), written with the copies of
    each atom adjacent, with all A records of a residue before all B records, and with B before A: the order of the
    atoms inside a residue must not matter"""
    from rnapolis.parser import read_3d_structure

    fn = case["file"]
    atoms = table_from_structure(corpus.structure(fn))
    info = case.setdefault("_info", {})
    if atoms is None:
        info["skipped"] = True
        return []
    keys = []
    for a in atoms:
        k = (a["chain"], a["resseq"], a["icode"])
        if k not in keys:
            keys.append(k)
    chosen = {keys[i % len(keys)] for i in case["residues"]}
    dx, dy, dz = case["displacement"]
    variants = {}
    for order in ("interleaved", "blocks", "reverse-blocks"):
        rows = []
        i = 0
        while i < len(atoms):
            k = (atoms[i]["chain"], atoms[i]["resseq"], atoms[i]["icode"])
            j = i
            while j < len(atoms) and (atoms[j]["chain"], atoms[j]["resseq"], atoms[j]["icode"]) == k:
                j += 1
            block = atoms[i:j]
            if k in chosen:
                A = [dict(a, altloc="A", occ=0.7) for a in block]
                B = [dict(a, altloc="B", occ=0.3, x=round(a["x"] + dx, 3), y=round(a["y"] + dy, 3), z=round(a["z"] + dz, 3)) for a in block]
                if order == "interleaved":
                    for a, b in zip(A, B):
                        rows += [a, b]
                elif order == "blocks":
                    rows += A + B
                else:
                    rows += B + A
            else:
                rows += [dict(a) for a in block]
            i = j
        for n_, a in enumerate(rows):
            a["serial"] = n_ + 1
        if len(rows) > 99999:
            info["skipped"] = True
            return []
        variants[order] = rows
    os.makedirs(WORK_DIR, exist_ok=True)
    results = {}
    for order, rows in variants.items():
        ext = case.get("ext", "pdb")
        p = os.path.join(WORK_DIR, f"c05_{os.getpid()}_alt.{ext}")
        with open(p, "w") as f:
            f.write(atomtab.emit_pdb(rows) if ext == "pdb" else atomtab.emit_cif(rows, "?"))
        try:
            with open(p) as f:
                s3 = read_3d_structure(f, None)
        finally:
            os.remove(p)
        results[order] = normalise(annotate(s3, case.get("find_gaps", False)))
    b = results["interleaved"]
    info["nt"] = bool(b["basePairs"]) and bool(b["stackings"])
    info["altloc"] = True
    out = []
    for order in ("blocks", "reverse-blocks"):
        for k, what in diff(results["interleaved"], results[order]):
            out.append(D(f"C05:{k}:depends-on-atom-order-in-file", f"{fn} ({case.get('ext', 'pdb')}): alternate-location copies adjacent vs {order}: {what}"))
    return out


def oracle_disorder_copies(case):
    """chosen residues are deposited three times over - the residue itself and two copies 0.35 A and 0.7 A away under
    other chain ids, occupancies 0.5 / 0.3 / 0.2 (separately keyed atoms closer than 0.5 A in a chain a-b-c: which of
    them the reader keeps must not depend on how the file lists its atoms) - and the same records are written with the
    atoms of every residue in file order, reversed, and rotated by three: the annotation must be the same"""
    from rnapolis.parser import read_3d_structure

    fn = case["file"]
    atoms = table_from_structure(corpus.structure(fn))
    info = case.setdefault("_info", {})
    if atoms is None:
        info["skipped"] = True
        return []
    keys = []
    for a in atoms:
        k = (a["chain"], a["resseq"], a["icode"])
        if k not in keys:
            keys.append(k)
    chosen = {keys[i % len(keys)] for i in case["residues"]}
    used = {a["chain"] for a in atoms}
    spare = [c for c in "yzwvut" if c not in used]
    if len(spare) < 2:
        info["skipped"] = True
        return []
    dx, dy, dz = case["direction"]
    blocks, extra = [], []
    i = 0
    while i < len(atoms):
        k = (atoms[i]["chain"], atoms[i]["resseq"], atoms[i]["icode"])
        j = i
        while j < len(atoms) and (atoms[j]["chain"], atoms[j]["resseq"], atoms[j]["icode"]) == k:
            j += 1
        block = [dict(a) for a in atoms[i:j]]
        if k in chosen:
            for a in block:
                a["occ"] = 0.5
            for n_, (ch, occ) in enumerate(zip(spare[:2], (0.3, 0.2)), start=1):
                extra.append([dict(a, chain=ch, occ=occ, x=round(a["x"] + 0.35 * n_ * dx, 3), y=round(a["y"] + 0.35 * n_ * dy, 3),
                                   z=round(a["z"] + 0.35 * n_ * dz, 3)) for a in block])
        blocks.append(block)
        i = j
    blocks += extra
    results = {}
    os.makedirs(WORK_DIR, exist_ok=True)
    for order in ("as-listed", "reversed", "rotated"):
        rows = []
        for block in blocks:
            b = list(block)
            if order == "reversed":
                b = b[::-1]
            elif order == "rotated":
                b = b[3 % len(b):] + b[:3 % len(b)]
            rows += [dict(a) for a in b]
        for n_, a in enumerate(rows):
            a["serial"] = n_ + 1
        if len(rows) > 99999:
            info["skipped"] = True
            return []
        ext = case.get("ext", "pdb")
        p = os.path.join(WORK_DIR, f"c05_{os.getpid()}_dis.{ext}")
        with open(p, "w") as f:
            f.write(atomtab.emit_pdb(rows) if ext == "pdb" else atomtab.emit_cif(rows, "?"))
        try:
            with open(p) as f:
                s3 = read_3d_structure(f, None)
        finally:
            os.remove(p)
        results[order] = normalise(annotate(s3, case.get("find_gaps", False)))
    b0 = results["as-listed"]
    info["nt"] = bool(b0["basePairs"]) and bool(b0["stackings"])
    info["disorder"] = True
    out = []
    for order in ("reversed", "rotated"):
        for k, what in diff(results["as-listed"], results[order]):
            out.append(D(f"C05:{k}:depends-on-atom-order-in-file", f"{fn} ({case.get('ext', 'pdb')}): three-fold disordered residues, atoms as listed vs {order}: {what}"))
    return out


def oracle(case):
    if case["kind"] == "altloc-order":
        return oracle_altloc_order(case)
    if case["kind"] == "disorder-copies":
        return oracle_disorder_copies(case)
    if case["kind"] == "formats":
        return oracle_formats(case)
    return oracle_transform(case)


def classify(case):
    info = case.get("_info", {})
    labs = [case["kind"]]
    if case["kind"] == "transform":
        ident = np.allclose(np.array(case["rot"]), np.eye(3)) and not any(case["shift"]) and case.get("atom_perm_seed") is None \
            and not case.get("rename_chains") and tuple(case.get("renumber", [1, 0])) != (1, 0)
        if not np.allclose(np.array(case["rot"]), np.eye(3)):
            labs.append("rotation")
        if any(case["shift"]):
            labs.append("translation")
        if case.get("atom_perm_seed") is not None:
            labs.append("atom-order")
        if case.get("rename_chains"):
            labs.append("chain-renaming")
        if tuple(case.get("renumber", [1, 0])) != (1, 0):
            labs.append("renumbering")
        if case.get("icode_runs") and not case["find_gaps"]:
            labs.append("renumbering-onto-insertion-codes")
        if case["find_gaps"]:
            labs.append("find_gaps")
        if case.get("align"):
            labs.append("input-with-a-contact-exactly-normal-to-an-axis")
        nontrivial = bool(info.get("nt")) and len(labs) > 1
    else:
        nontrivial = bool(info.get("nt"))
        if info.get("moved"):
            labs.append("formats-after-rigid-motion")
        if info.get("altloc"):
            labs.append("atom-order-in-file-with-alternate-locations")
        if info.get("disorder"):
            labs.append("atom-order-in-file-with-three-fold-disordered-residues")
        if info.get("wide-coordinates"):
            labs.append("coordinate<=-100-or>=1000")
        if info.get("negative-numbers"):
            labs.append("formats-with-negative-author-numbers")
        if info.get("five-digit-serials"):
            labs.append("formats-with-five-digit-serials")
        if info.get("modres"):
            labs.append("formats-with-4-thiouridines-announced-by-MODRES")
        if info.get("ensemble"):
            labs.append("formats-of-an-ensemble-" + ("later" if info.get("later-model-requested") else "first") + "-model-requested")
    if info.get("undecided"):
        labs.append("undecided-margin")
    if info.get("skipped"):
        labs.append("skipped-does-not-fit-pdb")
    return nontrivial, labs


def to_json(case):
    return {k: v for k, v in case.items() if not k.startswith("_")}


def st_transform(files):
    from hypothesis import strategies as st

    return st.fixed_dictionaries({
        "kind": st.just("transform"),
        "file": st.sampled_from(files),
        "rot": st.one_of(st.just(np.eye(3).tolist()), gen3d.st_rigid().map(lambda rt: rt[0].tolist()),
                         gen3d.st_rigid().map(lambda rt: rt[0].tolist())),
        "shift": st.one_of(st.just([0.0, 0.0, 0.0]), st.lists(st.floats(-500, 500), min_size=3, max_size=3)),
        "atom_perm_seed": st.one_of(st.none(), st.integers(0, 2 ** 31)),
        "rename_chains": st.sampled_from(["", "", "Q", "z", "0"]),
        "renumber": st.sampled_from([[1, 0], [1, 0], [1, 1000], [1, -500], [2, 3], [3, 0]]),
        "find_gaps": st.booleans(),
        "icode_runs": st.sampled_from([0, 0, 0, 2, 3]),
        "thin_purines": st.one_of(st.none(), st.none(), st.lists(st.tuples(st.integers(0, 400), st.sampled_from(["no-O5-C5-N2", "six-base-atoms"])).map(list),
                                                                  min_size=1, max_size=4)),
    })


def st_formats(files):
    from hypothesis import strategies as st

    comp = st.sampled_from([0.0, 0.0, -150.0, -300.0, -700.0, 300.0, 900.0, 1500.0])
    return st.fixed_dictionaries({"kind": st.just("formats"), "file": st.sampled_from(files), "null": st.sampled_from(["?", "."]),
                                  "rot": st.one_of(st.none(), st.integers(0, 23)), "shift": st.lists(comp, min_size=3, max_size=3),
                                  "offset": st.sampled_from([0, 0, -210, -500, -60, 1000]),
                                  "first_serial": st.sampled_from([0, 0, 9001, 90000]), "hetatm": st.sampled_from([None, "nonstandard", "every-third-residue"]),
                                  "ensemble": st.one_of(st.none(), st.tuples(st.integers(2, 3), st.integers(0, 2)).map(list)),
                                  "model_numbers": st.sampled_from([None, None, [3, 1, 2], [2, 5, 7]]),
                                  "thio": st.sampled_from([None, None, [0], [1, 4], [2, 3, 7]])})


def st_altloc(files):
    from hypothesis import strategies as st

    return st.fixed_dictionaries({"kind": st.just("altloc-order"), "file": st.sampled_from(files), "ext": st.sampled_from(["pdb", "cif"]),
                                  "residues": st.lists(st.integers(0, 500), min_size=1, max_size=4),
                                  "displacement": st.sampled_from([[1.0, 0.0, 0.0], [0.0, 1.5, 0.5], [0.7, 0.7, 0.7], [0.0, 0.0, 2.5]]),
                                  "find_gaps": st.booleans()})


def plan(tier, seed):
    if tier == "quick":
        files = corpus.SMALL + ["1ehz-assembly-1.cif", "488d.pdb"]
        specs = [{"kind": "transform", "files": files, "examples": 40, "seed": seed * 1000 + k} for k in range(16)]
        specs += [{"kind": "formats", "files": [f]} for f in files]
        specs += [{"kind": "formats-moved", "files": corpus.SMALL, "examples": 12, "seed": seed * 1000 + 500 + k} for k in range(8)]
        specs += [{"kind": "altloc-order", "files": corpus.SMALL[:8], "examples": 10, "seed": seed * 1000 + 600 + k} for k in range(4)]
        specs += [{"kind": "disorder-copies", "files": corpus.SMALL[:8], "examples": 10, "seed": seed * 1000 + 650 + k} for k in range(4)]
        specs += [{"kind": "aligned", "files": [f], "max_contacts": 36, "axes": 1, "seed": seed} for f in corpus.SMALL[:8]]
    else:
        files = corpus.SMALL + corpus.MEDIUM + ["4qln.cif", "6g90_1.cif"]
        specs = [{"kind": "transform", "files": files, "examples": 150, "seed": seed * 1000 + k} for k in range(48)]
        specs += [{"kind": "formats", "files": [f]} for f in corpus.all_files()]
        specs += [{"kind": "formats-moved", "files": corpus.SMALL + corpus.MEDIUM, "examples": 150, "seed": seed * 1000 + 500 + k} for k in range(16)]
        specs += [{"kind": "altloc-order", "files": corpus.SMALL + corpus.MEDIUM, "examples": 80, "seed": seed * 1000 + 600 + k} for k in range(16)]
        specs += [{"kind": "disorder-copies", "files": corpus.SMALL + corpus.MEDIUM, "examples": 60, "seed": seed * 1000 + 650 + k} for k in range(8)]
        specs += [{"kind": "aligned", "files": [f], "max_contacts": 90, "axes": 1, "seed": seed + k} for f in corpus.SMALL for k in (0, 1)]
    return specs


def run_shard(spec) -> ShardResult:
    from rnaverif.runner import check_case

    res = ShardResult()
    files = [f for f in spec["files"] if f in corpus.all_files()]
    if spec["kind"] == "altloc-order":
        run_hypothesis(PROP_ID, st_altloc(files), oracle, seed=spec["seed"], max_examples=spec["examples"], result=res,
                       to_json=to_json, classify=classify, shrink=False)
    elif spec["kind"] == "disorder-copies":
        from hypothesis import strategies as st

        strat = st.fixed_dictionaries({"kind": st.just("disorder-copies"), "file": st.sampled_from(files), "ext": st.sampled_from(["pdb", "cif"]),
                                       "residues": st.lists(st.integers(0, 500), min_size=1, max_size=3),
                                       "direction": st.sampled_from([[1.0, 0.0, 0.0], [0.0, 1.0, 0.0], [0.6, 0.8, 0.0], [0.0, 0.6, 0.8]]),
                                       "find_gaps": st.booleans()})
        run_hypothesis(PROP_ID, strat, oracle, seed=spec["seed"], max_examples=spec["examples"], result=res,
                       to_json=to_json, classify=classify, shrink=False)
    elif spec["kind"] == "formats-moved":
        run_hypothesis(PROP_ID, st_formats(files), oracle, seed=spec["seed"], max_examples=spec["examples"], result=res,
                       to_json=to_json, classify=classify, shrink=False)
    elif spec["kind"] == "transform":
        run_hypothesis(PROP_ID, st_transform(files), oracle, seed=spec["seed"], max_examples=spec["examples"], result=res,
                       to_json=to_json, classify=classify, shrink=False)
    elif spec["kind"] == "aligned":
        # every base-base contact of the file in turn (up to max_contacts, spread evenly) made exactly normal to an axis;
        # the moved copy is one fixed generic rotation (no coordinate of any contact coincides after it)
        q = np.array([0.23 + 0.01 * (spec["seed"] % 7), -0.41, 0.67, 0.58])
        rot = gen3d.quat_rot(tuple(q / np.linalg.norm(q))).tolist()
        for f in files:
            n = len(base_contacts(f))
            step = max(1, n // spec["max_contacts"])
            for idx in range(0, n, step):
                for ax in range(spec["axes"]):
                    case = {"kind": "transform", "file": f, "rot": rot, "shift": [3.217, -11.043, 7.581], "atom_perm_seed": None, "rename_chains": "",
                            "renumber": [1, 0], "find_gaps": False, "icode_runs": 0, "thin_purines": None,
                            "align": [idx, (idx + ax + spec["seed"]) % 3, 0.3 + 0.37 * idx]}
                    check_case(PROP_ID, oracle, case, res, to_json=to_json)
                    nt, labs = classify(case)
                    res.note_case(to_json(case), nt, labs, sample_cap=1)
    else:
        for f in files:
            for null in ("?", "."):
                case = {"kind": "formats", "file": f, "null": null}
                check_case(PROP_ID, oracle, case, res, to_json=to_json)
                nt, labs = classify(case)
                res.note_case(to_json(case), nt, labs)
                if case.get("_info", {}).get("skipped"):
                    res.skipped += 1
    for lab in ("undecided-margin",):
        res.skipped += res.classes.get(lab, 0)
    res.exhaustive = False
    return res


def replay(case):
    return oracle(dict(case))
