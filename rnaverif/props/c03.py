"""C03 - reported base pairs are geometrically justified, edge-exclusive and maximal."""

from __future__ import annotations

import numpy as np

from rnaverif import corpus, gen3d, geomref
from rnaverif.runner import D, HarnessError, ShardResult, check_case, run_hypothesis

PROP_ID = "C03"
LEVEL = "exploration"
RULE = (
    "Domains: (a) whole corpus structures; (b) whole small corpus structures under a drawn rotation/translation, "
    "Gaussian jitter sigma in {0, 0.01, 0.05, 0.2} A, residue thinning and atom thinning; (c) mini-structures of 2-4 "
    "neighbouring residues of a corpus file, each residue moved by an independent small rigid perturbation "
    "(translation <=1.5 A, rotation <=30 deg) so that H-bond distances, normal angles and the cis/trans torsion "
    "sweep across their thresholds; (d) STEERED pairs: one donor-acceptor (or base-donor to phosphate / ribose oxygen) "
    "distance between two neighbouring corpus residues put by construction at 4.0 A +- {1e-5 .. 0.1}. Oracle: independent O(n^2) reference (own donor/acceptor/edge tables, own "
    "normals, angles, dihedral, three-valued at 1e-6): soundness (>=2 distinct possibly-true contacts on the named "
    "edges, O2' accepted as support; cis/trans == |C1'-N-N-C1'| < 90), edge exclusivity, completeness (>=2 "
    "certainly-true base-to-base contacts on an edge combination => reported with that class or an edge slot taken). "
    "Non-trivial: structure with >=1 reported pair and (a candidate within 0.2 A / 5 deg of a threshold or a residue "
    "with contacts on >=2 partners); distinct = distinct case description."
)
ASSUMPTIONS = [
    "residue identity and one-letter names are taken from the residue-level reader (checked separately by C08/C15)",
    "contacts within 1e-6 of a threshold are undecided; O2' contacts count as support but are not demanded",
    "structures with duplicate residue identities inside one model are skipped (counted)",
    "trusted: NumPy, rnaverif/geomref.py",
]


def lw_parts(lw):
    v = lw.value if hasattr(lw, "value") else str(lw)
    return v[0], v[1], v[2]


def evaluate(s3, model=None):
    """returns (discrepancies, info) for one Structure3D"""
    from rnapolis.annotator import find_pairs

    rr = geomref.from_structure3d(s3, model)
    by_ident = {}
    dup = False
    for r in rr:
        if r.ident in by_ident:
            dup = True
        by_ident[r.ident] = r
    info = {"residues": len(rr), "pairs": 0, "near_threshold": False, "multi_partner": False, "skipped": dup,
            "min_margin": float("inf")}
    if dup:
        return [], info
    bps, _, _ = find_pairs(s3, model)
    info["pairs"] = len(bps)
    out = []

    def res_of(nt):
        return by_ident.get((nt.chain, nt.number, nt.icode))

    def order_key(r):
        return (r.model, r.chain, r.number, r.icode or " ")

    # contacts for every neighbouring residue pair, oriented lower-key first
    contacts = {}
    partners = {}
    for i, j in geomref.neighbours(rr, geomref.HB_MAX + 0.5):
        a, b = rr[i], rr[j]
        if order_key(b) < order_key(a):
            a, b = b, a
        cs, margin = geomref.base_contacts(a, b)
        info["min_margin"] = min(info["min_margin"], margin)
        if margin <= 0.2:
            info["near_threshold"] = True
        if cs:
            contacts[(a.idx, b.idx)] = cs
            partners.setdefault(a.idx, set()).add(b.idx)
            partners.setdefault(b.idx, set()).add(a.idx)
    info["multi_partner"] = any(len(v) >= 2 for v in partners.values())

    reported = {}  # (idx1, idx2) oriented lower-key first -> list of (ct, e1, e2)
    occupied = {}
    for bp in bps:
        r1, r2 = res_of(bp.nt1), res_of(bp.nt2)
        if r1 is None or r2 is None:
            out.append(D("C03:participant-not-in-structure", f"{bp.nt1.full_name} - {bp.nt2.full_name}"))
            continue
        if r1.idx == r2.idx:
            out.append(D("C03:self-pair", f"{bp.nt1.full_name} paired with itself"))
            continue
        ct, e1, e2 = lw_parts(bp.lw)
        if order_key(r2) < order_key(r1):
            r1, r2, e1, e2 = r2, r1, e2, e1
        reported.setdefault((r1.idx, r2.idx), []).append((ct, e1, e2))
        for slot in ((r1.idx, e1), (r2.idx, e2)):
            if slot in occupied:
                out.append(D("C03:edge-used-twice", f"edge {slot[1]} of {rr[slot[0]].ident} used by two reported pairs"))
            occupied[slot] = True
        # soundness
        cs = contacts.get((r1.idx, r2.idx))
        if cs is None:
            cs, _ = geomref.base_contacts(r1, r2)
        sup = [c for c in cs if e1 in c.e1 and e2 in c.e2]
        distinct = {(c.a1, c.a2) for c in sup}
        if len(distinct) < 2:
            if len(distinct) == 1 and any(c.via_o2 for c in sup):
                out.append(D("C03:single-contact:O2'-duplicated",
                             f"{bp.nt1.full_name}-{bp.nt2.full_name} {bp.lw.value} rests on ONE physical contact {sorted(distinct)} (through O2')"))
            else:
                out.append(D("C03:unjustified-pair",
                             f"{bp.nt1.full_name}-{bp.nt2.full_name} {bp.lw.value}: {len(distinct)} qualifying contact(s) {sorted(distinct)} on edges {e1}/{e2}"))
        want_ct, undecided, m = geomref.cis_trans(r1, r2)
        info["min_margin"] = min(info["min_margin"], m)
        if want_ct is None and not undecided:
            out.append(D("C03:cis-trans-undefined-but-reported", f"{bp.nt1.full_name}-{bp.nt2.full_name}"))
        elif not undecided and want_ct != ct:
            out.append(D("C03:wrong-cis-trans", f"{bp.nt1.full_name}-{bp.nt2.full_name} reported {ct}, torsion says {want_ct}"))

    # completeness
    for (i, j), cs in contacts.items():
        a, b = rr[i], rr[j]
        want_ct, undecided, _ = geomref.cis_trans(a, b)
        if want_ct is None:
            continue
        combos = {}
        for c in cs:
            if c.state is True and not c.via_o2:
                for x in c.e1:
                    for y in c.e2:
                        combos.setdefault((x, y), set()).add((c.a1, c.a2))
        for (x, y), pairs in combos.items():
            if len(pairs) < 2:
                continue
            rep = reported.get((i, j), [])
            ok = any(e1 == x and e2 == y and (undecided or ct == want_ct) for ct, e1, e2 in rep)
            if ok or (i, x) in occupied or (j, y) in occupied:
                continue
            out.append(D("C03:missing-pair",
                         f"{a.ident}-{b.ident}: {len(pairs)} certain base-to-base contacts {sorted(pairs)} on {want_ct}{x}{y}, not reported and both edges free"))
    return out, info


def load_case(case):
    kind = case["kind"]
    if kind == "file":
        return corpus.structure(case["file"])
    if kind == "mini":
        return gen3d.build_mini(case)
    if kind == "steered-stack":
        return gen3d.build_steered_stack(case)
    if kind == "crowd":
        return gen3d.build_crowd(case)
    if kind == "pulled-apart":
        return gen3d.build_pulled_apart(case)
    if kind == "columns":
        return gen3d.build_columns(case)
    if kind == "steered-hbond":
        info = {}
        s3 = gen3d.build_steered_hbond(case, info)
        if info.get("steered_atoms"):
            # self-check: the steered distance sits where it was put
            i, n1, j, n2 = info["steered_atoms"]
            rr = {r.idx: r for r in __import__("rnaverif.geomref", fromlist=["x"]).from_structure3d(s3)}
            ids = sorted(rr)
            a = rr[ids[0] if i < j else ids[1]].atoms[n1]
            b = rr[ids[1] if i < j else ids[0]].atoms[n2]
            got = float(np.linalg.norm(a - b))
            want = 4.0 + case["side"] * case["delta"]
            if abs(got - want) > 1e-9:
                raise HarnessError(f"steered distance is {got!r}, intended {want!r}")
        case["_steer_skipped"] = bool(info.get("steer_skipped"))
        if case.get("reletter"):
            s3 = gen3d.reletter_u_to_t(s3, case["reletter"]["slots"], case["reletter"]["c7"])
        return s3
    if kind == "moved":
        s3 = corpus.structure(case["file"])
        R = np.array(case["rot"], dtype=float)
        t = np.array(case["shift"], dtype=float)
        n = len(s3.residues)
        keep = None
        if case.get("drop_residues"):
            keep = set(range(n)) - {d % n for d in case["drop_residues"]}
        rng = np.random.default_rng(case.get("noise_seed", 0))
        sigma = case.get("sigma", 0.0)
        noise = {}
        drop_atoms = case.get("drop_atoms", 0.0)
        dropmask = {}
        for ri, r in enumerate(s3.residues):
            noise[ri] = rng.normal(0.0, 1.0, size=(len(r.atoms), 3)) * sigma
            dropmask[ri] = rng.random(len(r.atoms)) < drop_atoms
        out = gen3d.rebuild(s3, keep=keep, point_fn=lambda xyz, ri, k: R @ (xyz + noise[ri][k]) + t,
                            atom_keep=(lambda ri, k: not dropmask[ri][k]) if drop_atoms else None)
        if case.get("identity"):
            # residues identified by label items only (auth is None) or author items only (label is None)
            out = gen3d.one_identity(out, case["identity"])
        return out
    raise HarnessError(kind)


def oracle(case):
    if case.get("kind") == "multimodel":
        # several models in one structure object, each annotated by its number (1..k, from 0, or a trajectory's 300+)
        from rnaverif.props import c11

        s3 = c11.load_case(case)
        out, last = [], None
        for m in c11.model_numbers(case):
            ds, info = evaluate(s3, int(str(m)))  # an equal number, not the very object the residues carry
            out += [D(d.sig, f"model {m}: {d.what}") for d in ds]
            last = info if last is None or info["pairs"] > last["pairs"] else last
        case["_info"] = last
        return out
    s3 = load_case(case)
    ds, info = evaluate(s3)
    case["_info"] = info
    return ds


def classify(case):
    info = case.get("_info")
    if info is None:
        try:
            _, info = evaluate(load_case(case))
        except Exception:
            return False, [case["kind"]]
    labs = [case["kind"]]
    if info["pairs"]:
        labs.append("has-pairs")
    if info["near_threshold"]:
        labs.append("near-threshold")
    if info["multi_partner"]:
        labs.append("multi-partner-residue")
    if info["skipped"]:
        labs.append("skipped-duplicate-identities")
    nt = info["pairs"] >= 1 and (info["near_threshold"] or info["multi_partner"])
    return nt, labs


def to_json(case):
    return {k: v for k, v in case.items() if not k.startswith("_")}


def st_moved(files):
    from hypothesis import strategies as st

    return st.fixed_dictionaries({
        "kind": st.just("moved"),
        "file": st.sampled_from(files),
        "rot": gen3d.st_rigid().map(lambda rt: rt[0].tolist()),
        "shift": st.one_of(st.just([0.0, 0.0, 0.0]), st.lists(st.floats(-500, 500), min_size=3, max_size=3)),
        "sigma": st.sampled_from([0.0, 0.01, 0.05, 0.2]),
        "noise_seed": st.integers(0, 2 ** 31),
        "drop_residues": st.lists(st.integers(0, 10 ** 6), max_size=4),
        "drop_atoms": st.sampled_from([0.0, 0.0, 0.02, 0.1]),
        "identity": st.sampled_from([None, None, "label-only", "auth-only"]),
    })


def base_plan(tier, seed):
    specs = []
    if tier == "quick":
        files = corpus.SMALL[:8] + ["1ehz-assembly-1.cif"]
        for f in files:
            specs.append({"kind": "files", "files": [f]})
        specs += [{"kind": "moved", "files": corpus.SMALL[:8], "examples": 20, "seed": seed * 1000 + k} for k in range(12)]
        specs += [{"kind": "mini", "files": corpus.SMALL[:8] + ["1ehz-assembly-1.cif"], "examples": 400, "seed": seed * 1000 + 50 + k} for k in range(16)]
        specs += [{"kind": "steered-hbond", "files": corpus.SMALL[:8] + ["1ehz-assembly-1.cif"], "examples": 150, "seed": seed * 1000 + 300 + k} for k in range(8)]
    else:
        for f in corpus.all_files():
            specs.append({"kind": "files", "files": [f]})
        specs += [{"kind": "moved", "files": corpus.SMALL + corpus.MEDIUM[:5], "examples": 500, "seed": seed * 1000 + k} for k in range(16)]
        specs += [{"kind": "mini", "files": corpus.SMALL + corpus.MEDIUM, "examples": 6000, "seed": seed * 1000 + 50 + k} for k in range(16)]
        specs += [{"kind": "steered-hbond", "files": corpus.SMALL + corpus.MEDIUM, "examples": 4000, "seed": seed * 1000 + 300 + k} for k in range(16)]
    return specs


def plan(tier, seed):
    # crowded placements (superimposed, slightly perturbed copies of a run of residues as chains of one model): an atom
    # then has far more donors / acceptors within 4 A than any spaced structure offers
    n, ex = (4, 30) if tier == "quick" else (8, 800)
    m, mex = (4, 12) if tier == "quick" else (8, 250)
    return base_plan(tier, seed) + [{"kind": "crowd", "files": corpus.SMALL[:6], "examples": ex, "seed": seed * 1000 + 500 + k} for k in range(n)] + \
        [{"kind": "multimodel", "files": corpus.SMALL[:8], "examples": mex, "seed": seed * 1000 + 600 + k} for k in range(m)]


def run_shard(spec) -> ShardResult:
    res = ShardResult()
    files = [f for f in spec["files"] if f in corpus.all_files()]
    if spec["kind"] == "files":
        for f in files:
            case = {"kind": "file", "file": f}
            check_case(PROP_ID, oracle, case, res, to_json=to_json)
            nt, labs = classify(case)
            res.note_case({**to_json(case), **{k: case["_info"][k] for k in ("residues", "pairs")}} if "_info" in case else to_json(case), nt, labs)
            if case.get("_info", {}).get("skipped"):
                res.skipped += 1
    elif spec["kind"] == "moved":
        run_hypothesis(PROP_ID, st_moved(files), oracle, seed=spec["seed"], max_examples=spec["examples"], result=res,
                       to_json=to_json, classify=classify, shrink=True)
    elif spec["kind"] == "mini":
        run_hypothesis(PROP_ID, gen3d.st_mini(files), oracle, seed=spec["seed"], max_examples=spec["examples"],
                       result=res, to_json=to_json, classify=classify)
    elif spec["kind"] == "steered-hbond":
        run_hypothesis(PROP_ID, gen3d.st_steered_hbond(files), oracle, seed=spec["seed"], max_examples=spec["examples"],
                       result=res, to_json=to_json, classify=classify_steered)
    elif spec["kind"] == "multimodel":
        from rnaverif.props import c11

        run_hypothesis(PROP_ID, c11.st_multimodel(files), oracle, seed=spec["seed"], max_examples=spec["examples"],
                       result=res, to_json=to_json, classify=lambda c: (classify(c)[0], list(classify(c)[1]) + ["several-models-in-one-object"]))
    elif spec["kind"] == "crowd":
        run_hypothesis(PROP_ID, gen3d.st_crowd(files), oracle, seed=spec["seed"], max_examples=spec["examples"],
                       result=res, to_json=to_json, classify=lambda c: (classify(c)[0], list(classify(c)[1]) + ["crowded-copies"]))
    else:
        raise HarnessError(spec["kind"])
    res.exhaustive = False
    return res


def classify_steered(case):
    nt, labs = classify(case)
    labs = list(labs) + [f"steered-{case['what']}-distance", f"delta={case['delta']:g}", "above" if case["side"] > 0 else "below"]
    if case.get("_steer_skipped"):
        return False, labs + ["steer-skipped"]
    return True, labs


def replay(case):
    return oracle(dict(case))
