"""C01 - BPSEQ <-> dot-bracket conversion is lossless for every encoder."""

from __future__ import annotations

import math

from rnaverif import ssref
from rnaverif.runner import D, HarnessError, ShardResult, check_case, run_hypothesis

PROP_ID = "C01"
LEVEL = "exploration"
RULE = (
    "Domains: (a) every partial matching on 1..n for all n<=N (exhaustive; N=9 quick, N=11 thorough); "
    "(a') every chord diagram on k spaced chords (k stems of one pair: all conflict topologies and stem orders), k=5 "
    "quick, k=5,6 thorough; (b) Hypothesis blow-ups: abstract matching of <=8 (quick) / <=12 (thorough) pairs in any crossing pattern, "
    "each expanded into a stem of 1-6 pairs with unpaired runs of 0-5; (c) ladders of k=1..30 mutually crossing "
    "stems; (c') long structures: 30-120 stems of 1-15 pairs in a random nested arrangement plus up to 4 crossing "
    "chords, unpaired runs of 0-30 (60-4000 nt); (d) balanced dot-bracket strings over up to 30 bracket types, built by construction. For every "
    "structure every encoder (dot_bracket, fcfs, each member of all_dot_brackets when the enumeration is "
    "<=5000 orderings, and convert_to_dot_bracket(solver) with nine scripted solvers that stop without an optimum - four non-optimal statuses x variables unset / all zero - or raise PuLP's error) plus BpSeq text round trip, the file entry points (BpSeq.from_file, DotBracket.from_file on 2- and 3-line files, "
    "MultiStrandDotBracket.from_file, with and without a final newline), from_dotbracket and MultiStrandDotBracket.from_string on 1-3 "
    "strands is compared with an independent 30-stack reference decoder. A case is non-trivial when it has a "
    "crossing pair of stems, a zero-length hairpin, two adjacent stems, or needs >=3 levels; distinct = distinct "
    "(sequence, pair set) or (sequence, string)."
)
ASSUMPTIONS = [
    "structures needing more than 30 bracket levels are outside the property and are not generated",
    "BPSEQ symbols are single non-blank characters; multi-strand text uses the IUPAC letters the reader documents",
    "exhaustive only up to N positions; larger structures are sampled",
    "trusted: CPython, Hypothesis, the reference decoder in rnaverif/ssref.py",
]


def _imports():
    from rnapolis.common import BpSeq, DotBracket, MultiStrandDotBracket

    return BpSeq, DotBracket, MultiStrandDotBracket


def check_notation(tag: str, db, seq: str, pairs) -> list:
    out = []
    want = set(pairs)
    n = len(seq)
    s = getattr(db, "structure", None)
    if not isinstance(s, str) or not isinstance(getattr(db, "sequence", None), str):
        return [D(f"C01:{tag}:not-a-dotbracket", f"{tag} returned {type(db).__name__}")]
    if db.sequence != seq:
        out.append(D(f"C01:{tag}:sequence-changed", f"sequence {db.sequence!r} != {seq!r}"))
    if len(s) != n:
        out.append(D(f"C01:{tag}:length", f"structure length {len(s)} != {n}"))
        return out
    bad = sorted(set(s) - ssref.ALPHABET)
    if bad:
        out.append(D(f"C01:{tag}:alphabet", f"characters {bad} outside the bracket alphabet in {s!r}"))
        return out
    try:
        dec = ssref.decode(s)
    except ssref.DecodeError as e:
        out.append(D(f"C01:{tag}:unbalanced", f"{s!r}: {e}"))
        return out
    got = {(i, j) for i, j, _ in dec}
    lost = sorted(want - got)
    invented = sorted(got - want)
    if lost:
        out.append(D(f"C01:{tag}:lost-pair", f"{s!r} loses {lost[:5]}"))
    if invented:
        out.append(D(f"C01:{tag}:invented-pair", f"{s!r} invents {invented[:5]}"))
    # explicit positional check: no two crossing pairs on one bracket type
    by_level = {}
    for i, j in want:
        a, b = s[i - 1], s[j - 1]
        if a in ssref.IS_OPEN and b in ssref.IS_CLOSE and ssref.LEVEL_OF[a] == ssref.LEVEL_OF[b]:
            by_level.setdefault(ssref.LEVEL_OF[a], []).append((i, j))
    for lev, ps in by_level.items():
        ps.sort()
        for x in range(len(ps)):
            for y in range(x + 1, len(ps)):
                if ps[y][0] > ps[x][1]:
                    break
                if ssref.crossing(ps[x], ps[y]):
                    out.append(D(f"C01:{tag}:crossing-same-type", f"{s!r}: {ps[x]} and {ps[y]} cross on level {lev}"))
                    return out
    # pairs attribute of the produced object must agree with the text
    objpairs = {(a + 1, b + 1) for a, b in getattr(db, "pairs", [])}
    if objpairs != got:
        out.append(D(f"C01:{tag}:pairs-attr", f"DotBracket.pairs {sorted(objpairs)[:5]} disagrees with its text {s!r}"))
    return out


def enumeration_cost(comps) -> int:
    return sum(math.factorial(len(c)) for c in comps) + math.prod(
        min(math.factorial(len(c)), 10 ** 6) for c in comps
    ) if comps else 1


def oracle_structure(case, all_limit=5000) -> list:
    BpSeq, DotBracket, MultiStrandDotBracket = _imports()
    seq, pairs = case[0], [tuple(p) for p in case[1]]
    cuts = case[2] if len(case) > 2 else None
    text = ssref.bpseq_text(seq, pairs)
    out = []
    b = BpSeq.from_string(text)
    _decoys = [BpSeq.from_string(t) for t in ssref.decoy_texts(len(seq))]  # other objects alive while this one is asked
    if str(b) != text:
        out.append(D("C01:bpseq:text-roundtrip", f"str(from_string(t)) != t for {text!r}"))
    b2 = BpSeq.from_string(str(b))
    if not (b2 == b):
        out.append(D("C01:bpseq:reparse-unequal", "from_string(str(b)) != b"))
    want_map = {}
    for i, j in pairs:
        want_map[i] = j
        want_map[j] = i
    if dict(b.pairs) != want_map:
        out.append(D("C01:bpseq:pairs-map", f"BpSeq.pairs {dict(b.pairs)} != {want_map}"))
    st, g, comps = ssref.describe(seq, pairs)
    out += check_notation("dot_bracket", b.dot_bracket, seq, pairs)
    out += check_notation("fcfs", b.fcfs, seq, pairs)
    if enumeration_cost(comps) <= all_limit:
        alls = b.all_dot_brackets
        if not isinstance(alls, list) or not alls:
            out.append(D("C01:all:empty", f"all_dot_brackets returned {alls!r}"))
        else:
            for db in alls:
                ds = check_notation("all", db, seq, pairs)
                if ds:
                    out += ds
                    break
    # back-conversion of each produced notation
    for tag, db in (("dot_bracket", b.dot_bracket), ("fcfs", b.fcfs)):
        if isinstance(getattr(db, "structure", None), str) and len(db.structure) == len(seq):
            back = BpSeq.from_dotbracket(db)
            if str(back) != text:
                out.append(D(f"C01:{tag}:from_dotbracket-back", f"from_dotbracket({db.structure!r}) != source BPSEQ"))
    out += file_entry_points(text, b, seq)
    if comps:
        # the encoder that takes a caller's solver, with solvers that stop without an optimum (status NotSolved /
        # Undefined / Infeasible / Unbounded, variables unset or all zero) or raise PuLP's error: whatever notation
        # comes back must still decode to exactly the source pairs
        import pulp

        from rnaverif.props.c13 import _make_scripted

        Scripted = _make_scripted(pulp)
        for beh in ("notsolved", "undefined", "infeasible", "unbounded", "raise"):
            for varmode in ("unset", "zero"):
                if beh == "raise" and varmode == "zero":
                    continue
                b3 = BpSeq.from_string(text)
                try:
                    db3 = b3.convert_to_dot_bracket(Scripted([(beh, varmode)]))
                except Exception as exc:  # whether it may raise is C13's claim, not this property's
                    continue
                out += check_notation(f"convert[{beh}/{varmode}]", db3, seq, pairs)
    # multi-strand text path
    s = b.dot_bracket.structure
    if isinstance(s, str) and len(s) == len(seq) and all(ch in "ACGTURYSWKMBDHVNacgturyswkmbdhvn.-" for ch in seq):
        n = len(seq)
        if cuts is None:
            cuts = sorted({c for c in (n // 3, (2 * n) // 3) if 0 < c < n})
        cuts = sorted({c for c in cuts if 0 < c < n})
        bounds = [0] + cuts + [n]
        for header in (True, False):
            chunks = []
            for k in range(len(bounds) - 1):
                a, z = bounds[k], bounds[k + 1]
                chunks.append((f">strand_{k + 1}\n" if header else "") + seq[a:z] + "\n" + s[a:z])
            txt = "\n".join(chunks) + "\n"
            ms = MultiStrandDotBracket.from_string(txt)
            if ms.sequence != seq or ms.structure != s:
                out.append(D("C01:multistrand:concat", f"multi-strand text {txt!r} read as {ms.sequence!r}/{ms.structure!r}"))
                continue
            spans = [(x.first, x.last, x.sequence, x.structure) for x in ms.strands]
            want_spans = [(bounds[k] + 1, bounds[k + 1], seq[bounds[k]:bounds[k + 1]], s[bounds[k]:bounds[k + 1]]) for k in range(len(bounds) - 1)]
            if spans != want_spans:
                out.append(D("C01:multistrand:strands", f"strands {spans} != {want_spans}"))
            back = BpSeq.from_dotbracket(ms)
            if str(back) != text:
                out.append(D("C01:multistrand:pairs", f"multi-strand text {txt!r} decodes to other pairs"))
    return out


def file_entry_points(text, b, seq) -> list:
    """BpSeq.from_file / DotBracket.from_file / MultiStrandDotBracket.from_file read what str() of the objects wrote
    (with and without a final newline; 2-line and 3-line dot-bracket files)"""
    import os

    from rnaverif.runner import WORK_DIR

    BpSeq, DotBracket, MultiStrandDotBracket = _imports()
    out = []
    os.makedirs(WORK_DIR, exist_ok=True)
    p = os.path.join(WORK_DIR, f"c01_{os.getpid()}.txt")
    try:
        for tail in ("", "\n"):
            with open(p, "w") as f:
                f.write(text + tail)
            fb = BpSeq.from_file(p)
            if not (fb == b) or str(fb) != text:
                out.append(D("C01:bpseq:from_file", f"from_file differs from from_string for {text[:60]!r} (final newline: {bool(tail)})"))
        db = b.dot_bracket
        s = getattr(db, "structure", None)
        if isinstance(s, str) and len(s) == len(seq) and len(seq) > 0:
            for header in ("", ">strand_A\n"):
                for tail in ("", "\n"):
                    with open(p, "w") as f:
                        f.write(header + str(db) + tail)
                    fd = DotBracket.from_file(p)
                    if fd.sequence != seq or fd.structure != s or sorted(fd.pairs) != sorted(db.pairs):
                        out.append(D("C01:dotbracket:from_file", f"DotBracket.from_file read {fd.sequence[:40]!r}/{fd.structure[:40]!r} from a {'3' if header else '2'}-line file of {s[:40]!r}"))
                    if all(ch in "ACGTURYSWKMBDHVNacgturyswkmbdhvn.-" for ch in seq):
                        fm = MultiStrandDotBracket.from_file(p)
                        if fm.sequence != seq or fm.structure != s:
                            out.append(D("C01:multistrand:from_file", f"MultiStrandDotBracket.from_file read {fm.sequence[:40]!r}/{fm.structure[:40]!r}"))
    finally:
        try:
            os.remove(p)
        except OSError:
            pass
    seen, res = set(), []
    for d in out:
        if d.sig not in seen:
            seen.add(d.sig)
            res.append(d)
    return res


def oracle_string(case) -> list:
    BpSeq, DotBracket, _ = _imports()
    seq, structure = case
    out = []
    ref = ssref.decode(structure)  # generator guarantees balance
    pairs = sorted((i, j) for i, j, _ in ref)
    db = DotBracket.from_string(seq, structure)
    got = sorted((a + 1, b + 1) for a, b in db.pairs)
    if got != pairs:
        out.append(D("C01:string:decode", f"{structure!r} decoded to {got[:6]} instead of {pairs[:6]}"))
    b = BpSeq.from_dotbracket(db)
    if str(b) != ssref.bpseq_text(seq, pairs):
        out.append(D("C01:string:to-bpseq", f"from_dotbracket({structure!r}) has other pairs"))
    if db.structure != structure or db.sequence != seq:
        out.append(D("C01:string:mutated", "DotBracket changed its own text"))
    out += check_notation("dot_bracket", b.dot_bracket, seq, pairs)
    out += check_notation("fcfs", b.fcfs, seq, pairs)
    # notations DERIVED from this one are dot-brackets too: the pseudoknot-free one (taken from the object after its
    # pairs were read and converted above, and from a fresh object) must convert to exactly the round-bracket pairs
    round_pairs = sorted((i, j) for i, j, lev in ref if lev == 0)
    for tag, src in (("used-object", db), ("fresh-object", DotBracket.from_string(seq, structure))):
        d2 = src.without_pseudoknots()
        if d2.sequence != seq or len(d2.structure) != len(structure):
            out.append(D(f"C01:string:without-pseudoknots:{tag}:text", f"{d2.structure!r} for {structure!r}"))
            continue
        got2 = sorted((a + 1, c + 1) for a, c in d2.pairs)
        conv = BpSeq.from_dotbracket(d2)
        if got2 != round_pairs or str(conv) != ssref.bpseq_text(seq, round_pairs):
            out.append(D(f"C01:string:without-pseudoknots:{tag}:pairs", f"{structure!r} -> {d2.structure!r} carries pairs {got2[:6]}, BPSEQ pairs differ from the round-bracket pairs {round_pairs[:6]}"))
    return out


def classify_structure(case):
    nt, labs, _ = ssref.labels_for(case[0], case[1])
    return nt, labs


def classify_string(case):
    seq, structure = case
    pairs = [(i, j) for i, j, _ in ssref.decode(structure)]
    nt, labs, _ = ssref.labels_for(seq, pairs)
    ntypes = len({ssref.LEVEL_OF[c] for c in structure if c != "."})
    return nt, ["string:" + l for l in labs] + ([f"string:types>={min(ntypes, 5)}"] if ntypes >= 2 else [])


def plan(tier, seed):
    specs = []
    if tier == "quick":
        N, K = 9, 16
        hyp = [("blowup", 150, 8)] * 16 + [("string", 150, 0)] * 8
        ladders = list(range(1, 31))
    else:
        N, K = 11, 64
        hyp = [("blowup", 1250, 12)] * 16 + [("string", 1500, 0)] * 8
        ladders = list(range(1, 31))
    for k in range(K):
        specs.append({"kind": "exhaustive", "N": N, "slice": k, "of": K})
    for k, shards in ([(5, 2)] if tier == "quick" else [(5, 1), (6, 10)]):
        for sl in range(shards):
            specs.append({"kind": "chords", "k": k, "slice": sl, "of": shards})
    for idx, (kind, n, m) in enumerate(hyp):
        specs.append({"kind": kind, "examples": n, "max_abstract": m, "seed": seed * 1000 + idx})
    for k in range(4 if tier == "quick" else 16):
        specs.append({"kind": "large", "examples": 6 if tier == "quick" else 60, "seed": seed * 1000 + 700 + k})
    specs.append({"kind": "ladders", "ks": ladders, "milp_upto": 10 if tier == "quick" else 16})
    # one group of 8-10 crossing stems (a chain of kissing helices): every member of the k!-fold enumeration is decoded
    for k in ((8, 9) if tier == "quick" else (8, 9, 10)):
        specs.append({"kind": "kissing", "k": k})
    return specs


def run_shard(spec) -> ShardResult:
    res = ShardResult()
    kind = spec["kind"]
    if kind == "exhaustive":
        idx = 0
        for n in range(1, spec["N"] + 1):
            seq = ssref.seq_for(n, n)
            for m in ssref.all_matchings(n):
                if idx % spec["of"] == spec["slice"]:
                    case = (seq, m)
                    nt, labs = classify_structure(case)
                    res.note_case([seq, list(m)], nt, labs, sample_cap=1)
                    check_case(PROP_ID, oracle_structure, case, res, to_json=lambda c: [c[0], list(c[1])])
                idx += 1
        res.exhaustive = True
        res.extra["exhaustive_structures"] = res.evaluations
    elif kind == "chords":
        # every chord diagram on k spaced chords = every conflict topology and stem order with exactly k stems
        for idx, chords in enumerate(ssref.perfect_matchings(spec["k"])):
            if idx % spec["of"] == spec["slice"]:
                case = ssref.chord_structure(chords)
                nt, labs = classify_structure(case)
                res.note_case([case[0], list(case[1])], nt, labs + [f"chord-diagram-k={spec['k']}"], sample_cap=1)
                check_case(PROP_ID, oracle_structure, case, res, to_json=lambda c: [c[0], list(c[1])])
        res.exhaustive = True
        res.extra[f"chord_diagrams_k{spec['k']}"] = res.evaluations
    elif kind == "large":
        # long structures (hundreds to thousands of nucleotides, 30-120 stems of up to 15 pairs, long unpaired runs)
        run_hypothesis(PROP_ID, ssref.st_large_structures(), oracle_structure, seed=spec["seed"], max_examples=spec["examples"],
                       result=res, to_json=lambda c: [c[0], [list(p) for p in c[1]]],
                       classify=lambda c: (classify_structure(c)[0], classify_structure(c)[1] + ["large", f"length>={min(len(c[0]) // 500 * 500, 3000)}"]),
                       sample_cap=0, shrink=False)
        res.exhaustive = False
    elif kind == "blowup":
        from hypothesis import strategies as st

        strat = st.tuples(
            ssref.st_structures(max_abstract=spec["max_abstract"]),
            st.lists(st.integers(1, 200), max_size=2),
        ).map(lambda t: (t[0][0], t[0][1], [c % max(1, len(t[0][0])) for c in t[1]]))
        run_hypothesis(
            PROP_ID, strat, oracle_structure, seed=spec["seed"], max_examples=spec["examples"], result=res,
            to_json=lambda c: [c[0], [list(p) for p in c[1]], list(c[2])], classify=classify_structure,
        )
        res.exhaustive = False
    elif kind == "string":
        run_hypothesis(
            PROP_ID, ssref.st_dotbrackets(), oracle_string, seed=spec["seed"], max_examples=spec["examples"],
            result=res, to_json=lambda c: list(c), classify=classify_string,
        )
        res.exhaustive = False
    elif kind == "ladders":
        BpSeq, _, _ = _imports()
        for k in spec["ks"]:
            for stem_len, gap in ((1, 0), (2, 1)):
                seq, pairs = ssref.ladder(k, stem_len, gap)
                labs = [f"ladder"]
                res.note_case(["ladder", k, stem_len, gap], k >= 2, labs, sample_cap=1)
                if k <= spec["milp_upto"]:
                    check_case(PROP_ID, lambda c: oracle_structure(c, all_limit=800), (seq, pairs), res,
                               to_json=lambda c: [c[0], list(c[1])])
                else:
                    def fcfs_only(c):
                        b = BpSeq.from_string(ssref.bpseq_text(c[0], c[1]))
                        return check_notation("fcfs", b.fcfs, c[0], c[1])

                    check_case(PROP_ID, fcfs_only, (seq, pairs), res, to_json=lambda c: [c[0], list(c[1])])
        res.exhaustive = False
    elif kind == "kissing":
        k = spec["k"]
        case = ssref.kissing_chain(k, [2 + (i % 2) for i in range(k)])
        res.note_case([case[0], list(case[1])], True, [f"one-group-of-{k}-crossing-stems"], sample_cap=1)
        check_case(PROP_ID, lambda c: oracle_structure(c, all_limit=4000000), case, res, to_json=lambda c: [c[0], list(c[1])])
        res.exhaustive = False
    else:
        raise HarnessError(f"unknown shard kind {kind}")
    return res


def replay(case):
    if len(case) == 2 and isinstance(case[1], str):
        return oracle_string(tuple(case))
    return oracle_structure(case)
