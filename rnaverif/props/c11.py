"""C11 - interaction lists are well-formed and self-consistent."""

from __future__ import annotations

import numpy as np

from rnaverif import corpus, gen3d, geomref
from rnaverif.props import c03
from rnaverif.runner import D, HarnessError, ShardResult, check_case, run_hypothesis

PROP_ID = "C11"
LEVEL = "exploration"
RULE = (
    "Domains as C03 (corpus structures; rigidly moved / jittered / thinned copies; mini-structures of 2-4 "
    "neighbouring residues with independent rigid perturbations) plus multi-model structures (model 2..3 = "
    "perturbed copies sharing all residue identities, as NMR ensembles do) annotated with every model argument, "
    "plus the EXHAUSTIVE grid of (base, base, LW class) over {A,C,G,U,T,a,N}^2 x 18 for the Saenger lookup. Oracle: "
    "per list no repeated interaction, nt1 != nt2, every participant is a residue of the analysed model; base "
    "pairs and stackings have key(nt1) < key(nt2) and are sorted by (key(nt1), key(nt2)), key = (chain, number, "
    "icode); Saenger present <=> the harness's literal 28-class table defines it, identical for a pair and its "
    "reverse; each BPh/BR joins different residues, carries a class implied by a base-donor atom of nt1 possibly "
    "within 4.0 A of a phosphate/ribose oxygen of nt2 IN THE ANALYSED MODEL (3+5->4, 7+9->8 merges allowed), at most "
    "one BPh and one BR per ordered residue pair. Non-trivial: annotation with >=1 BPh, >=1 BR and >=1 "
    "non-canonical pair; distinct = distinct case description. For corpus files and mini-structures write_csv and write_json "
    "are parsed back and must list exactly the annotation's interactions (order, names, classes) and texts."
)
ASSUMPTIONS = [
    "BPh/BR: only soundness and uniqueness are claimed (which consumed contact survives is order-dependent and not part of the statement)",
    "distances within 1e-6 of 4.0 A and torsions within 1e-6 deg of +-90 are undecided (both readings accepted)",
    "trusted: NumPy, rnaverif/geomref.py (literal copy of the Saenger table)",
]

CANONICAL = {"XIX", "XX", "XXVIII"}


def check_lists(s3, model, rr_model, out, info, fragments=False):
    """rr_model: RRes list of the analysed model. fragments=True: some residue arrives as two record blocks (two
    Residue3D of one identity); the library derives base-phosphate/base-ribose classes per block, so "one class per
    residue pair" and "no repeated entry" are not demanded of those two lists there - what "a residue" is is
    ambiguous for them - while the self-contact, membership, order and class-soundness clauses are judged on identities"""
    from rnapolis.annotator import extract_base_interactions

    bi = extract_base_interactions(s3, model)
    by_ident = {r.ident: r for r in rr_model}
    lists = {"basePairs": bi.basePairs, "stackings": bi.stackings, "baseRibose": bi.baseRiboseInteractions,
             "basePhosphate": bi.basePhosphateInteractions, "other": bi.otherInteractions}
    for name, lst in lists.items():
        seen = set()
        for it in lst:
            if it in seen and not (fragments and name in ("baseRibose", "basePhosphate")):
                out.append(D(f"C11:{name}:repeated", f"{it.nt1.full_name}-{it.nt2.full_name} listed twice"))
            seen.add(it)
            a = by_ident.get(geomref.identity(it.nt1)[:3])
            b = by_ident.get(geomref.identity(it.nt2)[:3])
            if a is None or b is None:
                out.append(D(f"C11:{name}:participant-not-in-model", f"{it.nt1.full_name}-{it.nt2.full_name} (model {model})"))
                continue
            if a.idx == b.idx:
                out.append(D(f"C11:{name}:self-interaction", f"{it.nt1.full_name} with itself"))
    for name in ("basePairs", "stackings"):
        prev = None
        for it in lists[name]:
            a = by_ident.get(geomref.identity(it.nt1)[:3])
            b = by_ident.get(geomref.identity(it.nt2)[:3])
            if a is None or b is None:
                continue
            if not a.key < b.key:
                out.append(D(f"C11:{name}:lower-residue-not-first", f"{it.nt1.full_name} before {it.nt2.full_name}"))
            k = (a.key, b.key)
            if prev is not None and k < prev:
                out.append(D(f"C11:{name}:not-sorted", f"{it.nt1.full_name}-{it.nt2.full_name} after a larger entry"))
            prev = k
    noncanon = 0
    for bp in lists["basePairs"]:
        a = by_ident.get(geomref.identity(bp.nt1)[:3])
        b = by_ident.get(geomref.identity(bp.nt2)[:3])
        if a is None or b is None:
            continue
        want = geomref.SAENGER.get((a.letter + b.letter, bp.lw.value))
        got = bp.saenger.value if bp.saenger is not None else None
        if want != got:
            out.append(D("C11:saenger:wrong", f"{bp.nt1.full_name}-{bp.nt2.full_name} {a.letter}{b.letter} {bp.lw.value}: Saenger {got}, table says {want}"))
        if got not in CANONICAL:
            noncanon += 1
    for name, attr, accs in (("basePhosphate", "bph", geomref.R_PHOSPHATE), ("baseRibose", "br", geomref.R_RIBOSE)):
        per_pair = {}
        for it in lists[name]:
            a = by_ident.get(geomref.identity(it.nt1)[:3])
            b = by_ident.get(geomref.identity(it.nt2)[:3])
            if a is None or b is None or a.idx == b.idx:
                continue
            per_pair[(a.idx, b.idx)] = per_pair.get((a.idx, b.idx), 0) + 1
            cls_obj = getattr(it, attr)
            if cls_obj is None:
                out.append(D(f"C11:{name}:no-class", f"{it.nt1.full_name}-{it.nt2.full_name}"))
                continue
            c = int(cls_obj.value[0])
            K, margin, n = geomref.bph_br_classes(a, b, accs)
            info["min_margin"] = min(info["min_margin"], margin)
            allowed = set(K)
            if {3, 5} <= K:
                allowed.add(4)
            if {7, 9} <= K:
                allowed.add(8)
            if n == 0:
                out.append(D(f"C11:{name}:no-contact-within-4A", f"{it.nt1.full_name}->{it.nt2.full_name} {cls_obj.value}: no base donor of nt1 within 4.0 A of a {'phosphate' if attr == 'bph' else 'ribose'} oxygen of nt2"))
            elif c not in allowed:
                out.append(D(f"C11:{name}:class-not-implied", f"{it.nt1.full_name}->{it.nt2.full_name} {cls_obj.value}: contacts imply {sorted(allowed)}"))
            elif not fragments and ({3, 5} <= K or {7, 9} <= K):
                must = merged_class_required(rr_model, a, b, accs)
                if must is not None:
                    info["two_contact_pairs"] = info.get("two_contact_pairs", 0) + 1
                    if c != must:
                        out.append(D(f"C11:{name}:two-contacts-not-merged", f"{it.nt1.full_name}->{it.nt2.full_name} {cls_obj.value}: two separate donor atoms (classes {sorted(K)}) each hold an oxygen of their own and nothing else is in reach - the pair's class is {must}"))
        for (i, j), cnt in per_pair.items():
            if cnt > 1 and not fragments:
                out.append(D(f"C11:{name}:several-classes-per-pair", f"{rr_model[i].ident}->{rr_model[j].ident} carries {cnt}"))
    info["bph"] += len(lists["basePhosphate"])
    info["br"] += len(lists["baseRibose"])
    info["noncanonical"] += noncanon
    info["pairs"] += len(lists["basePairs"])


def check_outputs(s3, out, info):
    """write_csv / write_json list exactly the interactions of the annotation (same order, names, classes)"""
    import csv
    import json
    import os

    from rnapolis.annotator import extract_secondary_structure, write_csv, write_json
    from rnaverif.runner import WORK_DIR

    s2, _ = extract_secondary_structure(s3, None, False, False)
    bi = s2.baseInteractions
    os.makedirs(WORK_DIR, exist_ok=True)
    base = os.path.join(WORK_DIR, f"c11_{os.getpid()}")
    try:
        write_csv(base + ".csv", s2)
        write_json(base + ".json", s2)
        with open(base + ".csv", newline="") as f:
            rows = list(csv.reader(f))
        with open(base + ".json") as f:
            js = json.load(f)
    finally:
        for ext in (".csv", ".json"):
            try:
                os.remove(base + ext)
            except OSError:
                pass
    want = []
    for b in bi.basePairs:
        want.append([b.nt1.full_name, b.nt2.full_name, "base pair", b.lw.value, b.saenger.value if b.saenger else ""])
    for x in bi.stackings:
        want.append([x.nt1.full_name, x.nt2.full_name, "stacking", x.topology.value if x.topology else "", ""])
    for x in bi.basePhosphateInteractions:
        want.append([x.nt1.full_name, x.nt2.full_name, "base-phosphate interaction", x.bph.value if x.bph else "", ""])
    for x in bi.baseRiboseInteractions:
        want.append([x.nt1.full_name, x.nt2.full_name, "base-ribose interaction", x.br.value if x.br else "", ""])
    for x in bi.otherInteractions:
        want.append([x.nt1.full_name, x.nt2.full_name, "other interaction", "", ""])
    if rows[:1] != [["nt1", "nt2", "type", "classification-1", "classification-2"]]:
        out.append(D("C11:csv:header", f"{rows[:1]}"))
    elif rows[1:] != want:
        k = next((i for i, (a, b) in enumerate(zip(rows[1:], want)) if a != b), min(len(rows) - 1, len(want)))
        out.append(D("C11:csv:rows-differ-from-annotation", f"{len(rows) - 1} rows for {len(want)} interactions; first difference at row {k}: {rows[1:][k:k + 1]} vs {want[k:k + 1]}"))
    jb = js.get("baseInteractions", {})
    for key, lst, cls in (("basePairs", bi.basePairs, "lw"), ("stackings", bi.stackings, "topology"),
                          ("basePhosphateInteractions", bi.basePhosphateInteractions, "bph"),
                          ("baseRiboseInteractions", bi.baseRiboseInteractions, "br")):
        got = jb.get(key)
        exp = []
        for it in lst:
            a1, a2 = it.nt1.auth, it.nt2.auth
            v = getattr(it, cls)
            exp.append(((a1.chain, a1.number, a1.icode, a1.name) if a1 else None, (a2.chain, a2.number, a2.icode, a2.name) if a2 else None,
                        v.value if v is not None else None))
        try:
            have = [(((g["nt1"]["auth"]["chain"], g["nt1"]["auth"]["number"], g["nt1"]["auth"]["icode"], g["nt1"]["auth"]["name"]) if g["nt1"].get("auth") else None),
                     ((g["nt2"]["auth"]["chain"], g["nt2"]["auth"]["number"], g["nt2"]["auth"]["icode"], g["nt2"]["auth"]["name"]) if g["nt2"].get("auth") else None),
                     g.get(cls)) for g in got]
        except Exception as e:
            out.append(D("C11:json:shape", f"{key}: {type(e).__name__}: {e}"))
            continue
        if have != exp:
            out.append(D("C11:json:list-differs-from-annotation", f"{key}: {len(have)} entries vs {len(exp)} interactions"))
    if js.get("bpseq") != s2.bpseq or js.get("dotBracket") != s2.dotBracket or js.get("extendedDotBracket") != s2.extendedDotBracket:
        out.append(D("C11:json:texts-differ", "bpseq / dotBracket / extendedDotBracket in the JSON differ from the Structure2D"))
    info["outputs_checked"] = info.get("outputs_checked", 0) + 1


def merged_class_required(rr_model, a, b, accs):
    """4 (or 8) when the pair's class can only be the merged one: exactly two donor->oxygen contacts within 4.0 A, both
    decided, of classes 3 and 5 (7 and 9), on two different donor atoms and two different oxygens, and none of the four
    atoms has any other donor/acceptor counterpart of another residue within 4.0 A - so no greedy choice, no competing
    contact and no order of processing can leave one of the two contacts out. None otherwise (the statement is then
    satisfied by any implied class)."""
    L = a.letter
    if L not in geomref.R_DONORS:
        return None
    contacts = []
    for d in geomref.R_DONORS[L]:
        if d == "O2'" or d not in a.atoms:
            continue
        for o in accs:
            if o not in b.atoms:
                continue
            dist = float(np.linalg.norm(a.atoms[d] - b.atoms[o]))
            if abs(dist - geomref.HB_MAX) <= 1e-3:
                return None
            if dist < geomref.HB_MAX:
                contacts.append((d, o))
    if len(contacts) != 2 or contacts[0][0] == contacts[1][0] or contacts[0][1] == contacts[1][1]:
        return None
    per = []
    for d, o in contacts:
        one = geomref.RRes(b.idx, b.chain, b.number, b.icode, b.letter, b.model, {o: b.atoms[o]})
        lone = geomref.RRes(a.idx, a.chain, a.number, a.icode, a.letter, a.model, {k: v for k, v in a.atoms.items() if k == d or k not in geomref.R_DONORS[L]})
        K, margin, n = geomref.bph_br_classes(lone, one, [o])
        if n != 1 or len(K) != 1 or margin <= 1e-3:
            return None
        per.append(next(iter(K)))
    want = {frozenset((3, 5)): 4, frozenset((7, 9)): 8}.get(frozenset(per))
    if want is None:
        return None

    def typed(r):
        acc = set(geomref.R_ACCEPTORS.get(r.letter, [])) | set(geomref.R_PHOSPHATE) | set(geomref.R_RIBOSE)
        don = set(geomref.R_DONORS.get(r.letter, [])) - acc
        return acc, don

    for res, name, partner_res, partner in ((a, contacts[0][0], b, contacts[0][1]), (a, contacts[1][0], b, contacts[1][1]),
                                            (b, contacts[0][1], a, contacts[0][0]), (b, contacts[1][1], a, contacts[1][0])):
        acc_own, _ = typed(res)
        is_acc = name in acc_own
        for other in rr_model:
            if other.idx == res.idx:
                continue
            acc_o, don_o = typed(other)
            for nm in (don_o if is_acc else acc_o):
                if nm not in other.atoms or (other.idx == partner_res.idx and nm == partner):
                    continue
                if float(np.linalg.norm(res.atoms[name] - other.atoms[nm])) <= geomref.HB_MAX + 1e-3:
                    return None
    return want


def evaluate(s3, models=(None,), merge=False):
    info = {"bph": 0, "br": 0, "noncanonical": 0, "pairs": 0, "min_margin": float("inf"), "skipped": False}
    out = []
    for m in models:
        rr = geomref.from_structure3d(s3, m, merge=merge)
        idents = [r.ident for r in rr]
        if len(set(idents)) != len(idents):
            info["skipped"] = True
            continue
        check_lists(s3, m, rr, out, info, fragments=merge)
    return out, info


def load_case(case):
    if case["kind"] == "two-contact":
        s3 = gen3d.build_two_contact(case)
        if s3 is None:
            from rnapolis.tertiary import Structure3D

            return Structure3D([])
        return s3
    if case["kind"] == "multimodel":
        from rnapolis.tertiary import Structure3D

        base = corpus.structure(case["file"])
        n = len(base.residues)
        keep = None
        residues = list(gen3d.rebuild(base, model=1).residues)
        for k, mv in enumerate(case["models"]):
            rng = np.random.default_rng(mv["noise_seed"])
            noise = {ri: rng.normal(0, 1, size=(len(r.atoms), 3)) * mv["sigma"] for ri, r in enumerate(base.residues)}
            t = np.array(mv["shift"], dtype=float)
            residues += list(gen3d.rebuild(base, model=k + 2, point_fn=lambda xyz, ri, a: xyz + noise[ri][a] + t).residues)
        if case.get("interleave"):
            residues.sort(key=lambda r: (r.chain, r.number, r.icode or " ", r.model))
        s3m = Structure3D(residues)
        numbers = model_numbers(case)
        if numbers != list(range(1, len(numbers) + 1)):
            # the models carry drawn numbers (frames counted from 0, a subset 2 / 5 / 7 of an ensemble)
            ren = dict(zip(range(1, len(numbers) + 1), numbers))
            parts = []
            for r in s3m.residues:
                parts += list(gen3d.rebuild(Structure3D([r]), model=ren[r.model]).residues)
            s3m = Structure3D(parts)
        return s3m
    return c03.load_case(case)


def model_numbers(case):
    n = len(case["models"]) + 1
    numbers = list(case.get("model_numbers") or range(1, n + 1))
    return (numbers + [max(numbers) + 1 + k for k in range(n)])[:n]


def oracle(case):
    s3 = load_case(case)
    if case["kind"] == "multimodel":
        models = tuple(int(str(m)) for m in model_numbers(case))  # equal numbers, not the very objects the residues carry
    else:
        models = (None,)
    ds, info = evaluate(s3, models, merge=bool(case.get("split")))
    if models == (None,) and case["kind"] in ("file", "mini") and not info.get("skipped"):
        check_outputs(s3, ds, info)
    case["_info11"] = info
    return ds


def classify(case):
    info = case.get("_info11")
    if info is None:
        return False, [case["kind"]]
    labs = [case["kind"]]
    for k in ("bph", "br", "noncanonical"):
        if info[k]:
            labs.append("has-" + k)
    return info["bph"] >= 1 and info["br"] >= 1 and info["noncanonical"] >= 1, labs


def saenger_grid(res: ShardResult):
    """exhaustive (base, base, LW) grid"""
    from rnapolis.annotator import detect_saenger
    from rnapolis.common import LeontisWesthof, ResidueAuth
    from rnapolis.tertiary import Residue3D

    letters = ["A", "C", "G", "U", "T", "a", "N"]
    n = 0
    for b1 in letters:
        for b2 in letters:
            r1 = Residue3D(None, ResidueAuth("A", 1, None, b1), 1, b1, ())
            r2 = Residue3D(None, ResidueAuth("A", 2, None, b2), 1, b2, ())
            for lw in LeontisWesthof:
                n += 1
                case = {"kind": "saenger", "b1": b1, "b2": b2, "lw": lw.value}

                def orc(c, r1=r1, r2=r2, lw=lw, b1=b1, b2=b2):
                    out = []
                    got = detect_saenger(r1, r2, lw)
                    got = got.value if got is not None else None
                    want = geomref.SAENGER.get((b1 + b2, lw.value))
                    if got != want:
                        out.append(D("C11:saenger:wrong", f"{b1}{b2} {lw.value}: {got}, table says {want}"))
                    rev = detect_saenger(r2, r1, lw.reverse)
                    rev = rev.value if rev is not None else None
                    if rev != got:
                        out.append(D("C11:saenger:pair-and-reverse-differ", f"{b1}{b2} {lw.value} -> {got} but {b2}{b1} {lw.reverse.value} -> {rev}"))
                    if lw.reverse.reverse != lw or lw.reverse.value != lw.value[0] + lw.value[2] + lw.value[1]:
                        out.append(D("C11:lw-reverse:wrong", f"{lw.value}.reverse = {lw.reverse.value}"))
                    return out

                check_case(PROP_ID, orc, case, res)
                res.note_case(case, geomref.SAENGER.get((b1 + b2, lw.value)) is not None, ["saenger-grid"], sample_cap=1)
    res.extra["saenger_grid_cells"] = n


def st_multimodel(files):
    from hypothesis import strategies as st

    mv = st.fixed_dictionaries({"sigma": st.sampled_from([0.0, 0.05, 0.3]), "noise_seed": st.integers(0, 2 ** 31),
                                "shift": st.one_of(st.just([0.0, 0.0, 0.0]), st.lists(st.floats(-3, 3), min_size=3, max_size=3))})
    return st.fixed_dictionaries({"kind": st.just("multimodel"), "file": st.sampled_from(files),
                                  "models": st.lists(mv, min_size=1, max_size=2), "interleave": st.booleans(),
                                  "model_numbers": st.sampled_from([None, None, [0, 1, 2], [2, 5, 7], [3, 1, 2], [300, 301, 302], [998, 1065, 2000]])})


def plan(tier, seed):
    specs = c03.base_plan(tier, seed)
    specs.append({"kind": "saenger", "files": []})
    n = 8 if tier == "quick" else 16
    ex = 20 if tier == "quick" else 400
    specs += [{"kind": "multimodel", "files": corpus.SMALL[:8], "examples": ex, "seed": seed * 1000 + 200 + k} for k in range(n)]
    # placements with TWO contacts of merging classes (3+5 -> 4, 7+9 -> 8) between one base and one ribose / phosphate
    for letter in ("G", "C"):
        for oxy in (["O2'", "O4'"], ["OP1", "OP2"]):
            for k in range(1 if tier == "quick" else 6):
                specs.append({"kind": "two-contact", "files": ["1ehz-assembly-1.cif", "4qln.cif"] if tier != "quick" else ["1ehz-assembly-1.cif"], "letter": letter, "oxygens": oxy,
                              "donors": [k * 3 + seed, k * 3 + 1 + seed] if tier == "quick" else [k * 3 + seed, k * 3 + 1 + seed, k * 3 + 2 + seed]})
    return specs


def run_shard(spec) -> ShardResult:
    res = ShardResult()
    files = [f for f in spec["files"] if f in corpus.all_files()]
    if spec["kind"] == "saenger":
        saenger_grid(res)
        res.exhaustive = True
        return res
    if spec["kind"] == "files":
        for f in files:
            case = {"kind": "file", "file": f}
            check_case(PROP_ID, oracle, case, res, to_json=c03.to_json)
            nt, labs = classify(case)
            extra = {k: case["_info11"][k] for k in ("pairs", "bph", "br", "noncanonical")} if "_info11" in case else {}
            res.note_case({**c03.to_json(case), **extra}, nt, labs)
    elif spec["kind"] == "moved":
        run_hypothesis(PROP_ID, c03.st_moved(files), oracle, seed=spec["seed"], max_examples=spec["examples"], result=res,
                       to_json=c03.to_json, classify=classify)
    elif spec["kind"] == "mini":
        run_hypothesis(PROP_ID, gen3d.st_mini(files, split=True), oracle, seed=spec["seed"], max_examples=spec["examples"],
                       result=res, to_json=c03.to_json, classify=lambda c: (classify(c)[0], list(classify(c)[1]) + (["records-split"] if c.get("split") else [])))
    elif spec["kind"] == "steered-hbond":
        run_hypothesis(PROP_ID, gen3d.st_steered_hbond(files), oracle, seed=spec["seed"], max_examples=spec["examples"],
                       result=res, to_json=c03.to_json, classify=lambda c: (classify(c)[0], list(classify(c)[1]) + [f"steered-{c['what']}-distance"]))
    elif spec["kind"] == "two-contact":
        hits = 0
        for f in files:
            for dn in spec["donors"]:
                for swap in (False, True):
                    for dist in (3.7, 3.95):
                        for lift in (1.0, 2.0, -2.0):
                            for phi in range(0, 360, 30):
                                for order in ("donor-first", "acceptor-first"):
                                    case = {"kind": "two-contact", "file": f, "letter": spec["letter"], "oxygens": spec["oxygens"], "donor": dn, "acceptor": dn * 7 + 3,
                                            "swap": swap, "dist": dist, "lift": lift, "phi": phi, "order": order}
                                    check_case(PROP_ID, oracle, case, res, to_json=c03.to_json)
                                    info = case.get("_info11", {})
                                    two = info.get("two_contact_pairs", 0) >= 1
                                    hits += two
                                    res.note_case(c03.to_json(case), two, ["two-contact-placement"] + (["two-exclusive-contacts-of-merging-classes:" + spec["oxygens"][0]] if two else []), sample_cap=1 if two else 0)
        res.extra["two_contact_placements_" + spec["letter"] + "_" + spec["oxygens"][0].replace("'", "p")] = hits
    elif spec["kind"] == "multimodel":
        run_hypothesis(PROP_ID, st_multimodel(files), oracle, seed=spec["seed"], max_examples=spec["examples"],
                       result=res, to_json=c03.to_json, classify=classify)
    else:
        raise HarnessError(spec["kind"])
    res.exhaustive = False
    return res


def replay(case):
    if case.get("kind") == "saenger":
        res = ShardResult()
        saenger_grid(res)
        return [D(f["sig"], f["what"]) for f in res.failures]
    return oracle(dict(case))
