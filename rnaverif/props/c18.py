"""C18 - torsion angles follow the IUPAC convention in both implementations."""

from __future__ import annotations

import math
import os

import numpy as np

from rnaverif.runner import D, HarnessError, REPO, ShardResult, check_case, run_hypothesis

PROP_ID = "C18"
LEVEL = "exploration"
TOL = 1e-7
RULE = (
    "Constructive generator: draw phi in (-pi, pi] (dense near 0, +-pi/2, +-pi), three bond lengths 0.8-2.5 A, two "
    "bond angles 20-160 deg, build the four points in internal coordinates so that the IUPAC dihedral IS phi, then "
    "apply a random proper rotation (unit quaternion) and a translation up to +-500 A. Oracle: both torsion "
    "functions return phi (angular difference <= 1e-7 rad) inside [-pi, pi]; they agree with each other; reversing "
    "the point order keeps the value; mirroring negates it; the Atom-based wrapper equals the coordinate function. "
    "Corpus tier: chi of every residue through Residue3D.chi / chi_class and through tertiary_v2 "
    "Structure.torsion_angles (all seven columns) against an independent projection-based dihedral. Non-trivial: "
    "|phi| in (0.05, pi-0.05) with both bond angles >1 deg away from 90; distinct = distinct rounded parameter tuple."
)
ASSUMPTIONS = [
    "bond angles restricted to 20-160 deg and bond lengths to 0.8-2.5 A as the property's quantifier states (collinear input is outside)",
    "angular comparisons use tolerance 1e-7 rad; +pi and -pi are identified",
    "trusted: NumPy, the projection-based reference dihedral in this module (cross-checked against the constructed angle on every case)",
]


def angdiff(a, b):
    d = (a - b) % (2 * math.pi)
    return min(d, 2 * math.pi - d)


def ref_dihedral(p1, p2, p3, p4):
    """IUPAC dihedral by projection onto the plane normal to p2->p3 (independent formula)."""
    u = p3 - p2
    u = u / np.linalg.norm(u)
    a = (p1 - p2) - np.dot(p1 - p2, u) * u
    b = (p4 - p3) - np.dot(p4 - p3, u) * u
    return math.atan2(float(np.dot(u, np.cross(a, b))), float(np.dot(a, b)))


def build(phi, l1, l2, l3, t1, t2):
    p2 = np.zeros(3)
    p3 = np.array([0.0, 0.0, l2])
    p1 = np.array([l1 * math.sin(t1), 0.0, l1 * math.cos(t1)])
    p4 = p3 + l3 * np.array([math.sin(t2) * math.cos(phi), math.sin(t2) * math.sin(phi), -math.cos(t2)])
    return [p1, p2, p3, p4]


def quat_rot(q):
    w, x, y, z = q
    n = math.sqrt(w * w + x * x + y * y + z * z)
    w, x, y, z = w / n, x / n, y / n, z / n
    return np.array([
        [1 - 2 * (y * y + z * z), 2 * (x * y - z * w), 2 * (x * z + y * w)],
        [2 * (x * y + z * w), 1 - 2 * (x * x + z * z), 2 * (y * z - x * w)],
        [2 * (x * z - y * w), 2 * (y * z + x * w), 1 - 2 * (x * x + y * y)],
    ])


def expected_chi_class(chi):
    """only the uncontroversial regions: A-form-like (|chi|>=150 deg or -170..-90) is anti, 30..90 deg is syn"""
    d = math.degrees(chi)
    if abs(d) >= 150 or -170 <= d <= -90:
        return "anti"
    if 30 <= d <= 90:
        return "syn"
    return None


def _funcs():
    from rnapolis.tertiary import Atom, calculate_torsion_angle_coords, torsion_angle
    from rnapolis.tertiary_v2 import calculate_torsion_angle

    return Atom, calculate_torsion_angle_coords, torsion_angle, calculate_torsion_angle


def judge(tag, value, phi):
    """value against the prescribed phi; returns discrepancies"""
    out = []
    if value is None or not isinstance(float(value), float) or math.isnan(float(value)):
        return [D(f"C18:{tag}:nan", f"returned {value!r} for phi={phi!r}")]
    v = float(value)
    if not (-math.pi - 1e-12 <= v <= math.pi + 1e-12):
        out.append(D(f"C18:{tag}:out-of-range", f"returned {v!r}, outside [-pi, pi]"))
    if angdiff(v, phi) > TOL:
        if angdiff(v, -phi) <= TOL:
            out.append(D(f"C18:{tag}:sign-inverted", f"returned {v:.9f} for phi={phi:.9f} (= -phi)"))
        else:
            out.append(D(f"C18:{tag}:wrong-value", f"returned {v:.9f} for phi={phi:.9f}"))
    return out


def oracle_built(case) -> list:
    Atom, v1, v1_atoms, v2 = _funcs()
    phi, l1, l2, l3, t1, t2 = case["phi"], case["l1"], case["l2"], case["l3"], case["t1"], case["t2"]
    pts = build(phi, l1, l2, l3, t1, t2)
    R = quat_rot(case["q"])
    if abs(np.linalg.det(R) - 1) > 1e-9:
        raise HarnessError("rotation is not proper")
    shift = np.array(case["shift"])
    moved = [R @ p + shift for p in pts]
    # harness self-check: the construction really has dihedral phi
    if angdiff(ref_dihedral(*pts), phi) > 1e-9:
        raise HarnessError(f"construction self-check failed for {case}")
    out = []
    for tag, f in (("v1", v1), ("v2", v2)):
        a = f(*pts)
        out += judge(tag, a, phi)
        b = f(*moved)
        # large translations cost digits: tolerance scaled by |shift|
        tol = TOL + 1e-12 * (1 + float(np.abs(shift).max())) * 100
        if not (isinstance(b, float) or isinstance(b, np.floating)) or math.isnan(float(b)) or angdiff(float(b), float(a)) > tol:
            out.append(D(f"C18:{tag}:not-rigid-invariant", f"{float(a):.9f} before, {b!r} after rotation+translation"))
        r = f(*pts[::-1])
        if math.isnan(float(r)) or angdiff(float(r), float(a)) > TOL:
            out.append(D(f"C18:{tag}:reversal-changes-value", f"{float(a):.9f} vs reversed {float(r):.9f}"))
        mir = [p * np.array([-1.0, 1.0, 1.0]) for p in pts]
        m = f(*mir)
        if math.isnan(float(m)) or angdiff(float(m), -float(a)) > TOL:
            out.append(D(f"C18:{tag}:mirror-does-not-negate", f"{float(a):.9f} vs mirrored {float(m):.9f}"))
    a1, a2 = float(v1(*pts)), float(v2(*pts))
    if not math.isnan(a1) and not math.isnan(a2) and angdiff(a1, a2) > TOL:
        if angdiff(a1, -a2) <= TOL:
            out.append(D("C18:v2:sign-inverted", f"v1={a1:.9f}, v2={a2:.9f} (= -v1) for phi={phi:.9f}"))
        else:
            out.append(D("C18:v1-v2:disagree", f"v1={a1:.9f}, v2={a2:.9f} for phi={phi:.9f}"))
    atoms = [Atom(None, None, None, 1, "X", float(p[0]), float(p[1]), float(p[2]), None) for p in moved]
    w = v1_atoms(*atoms)
    if angdiff(float(w), float(v1(*moved))) > 1e-12:
        out.append(D("C18:v1:atom-wrapper-differs", f"torsion_angle(atoms)={w!r} vs coords {v1(*moved)!r}"))
    # the same questions through the Atom entry point, on the same atom values: reversed order, the first order again,
    # and - asked first on fresh values - the reversed order before the forward one
    wr = v1_atoms(*atoms[::-1])
    w2 = v1_atoms(*atoms)
    tolw = TOL + 1e-12 * (1 + float(np.abs(shift).max())) * 100
    if math.isnan(float(wr)) or angdiff(float(wr), float(w)) > tolw:
        out.append(D("C18:v1:atom-wrapper-reversal-changes-value", f"torsion_angle(a,b,c,d)={float(w):.9f} but torsion_angle(d,c,b,a)={float(wr):.9f}"))
    if math.isnan(float(w2)) or angdiff(float(w2), float(w)) > 1e-12:
        out.append(D("C18:v1:atom-wrapper-repeat-differs", f"{float(w):.9f} then {float(w2):.9f} for the same atoms"))
    mats = [Atom(None, None, None, 1, "X", float(-p[0]), float(p[1]), float(p[2]), None) for p in moved]
    mr = v1_atoms(*mats[::-1])
    mf = v1_atoms(*mats)
    if math.isnan(float(mf)) or angdiff(float(mf), float(mr)) > tolw:
        out.append(D("C18:v1:atom-wrapper-reversal-changes-value", f"reversed asked first: {float(mr):.9f}, then forward {float(mf):.9f}"))
    # the same four points as the glycosidic torsion of a purine and of a pyrimidine residue
    from rnapolis.tertiary import Residue3D
    from rnapolis.common import ResidueAuth
    for letter, names in (("G", ["O4'", "C1'", "N9", "C4"]), ("U", ["O4'", "C1'", "N1", "C2"])):
        auth = ResidueAuth("A", 1, None, letter)
        ats = tuple(Atom(None, None, auth, 1, nm, float(p[0]), float(p[1]), float(p[2]), 1.0) for nm, p in zip(names, moved))
        res = Residue3D(None, auth, 1, letter, ats)
        tol = TOL + 1e-12 * (1 + float(np.abs(shift).max())) * 100
        chi = res.chi
        if math.isnan(chi) or angdiff(chi, phi) > tol:
            sig = "sign-inverted" if (not math.isnan(chi) and angdiff(chi, -phi) <= tol) else "wrong-value"
            out.append(D(f"C18:chi-v1:{sig}", f"Residue3D({letter}).chi = {chi!r} for constructed chi {phi:.9f}"))
        want = expected_chi_class(phi)
        if want is not None and getattr(res.chi_class, "value", None) != want:
            out.append(D("C18:chi_class:wrong", f"chi {math.degrees(phi):.2f} deg classified {res.chi_class}"))
    # de-duplicate by signature
    seen, uniq = set(), []
    for d in out:
        if d.sig not in seen:
            seen.add(d.sig)
            uniq.append(d)
    return uniq


def oracle_lattice(case) -> list:
    """four integer lattice points handed over in a drawn array representation (int64 / int32 / float64 arrays, as
    coordinates kept in fixed-point units or typed by hand are): degeneracy is decided EXACTLY on the integers, the
    prescribed angle is the reference dihedral of the same points"""
    _, v1, _, v2 = _funcs()
    ints = [np.array(p, dtype=np.int64) for p in case["points"]]
    b1, b2, b3 = ints[1] - ints[0], ints[2] - ints[1], ints[3] - ints[2]
    n1, n2 = np.cross(b1, b2), np.cross(b2, b3)
    case["_degenerate"] = not (n1.any() and n2.any())
    if case["_degenerate"]:
        return []
    phi = ref_dihedral(*[p.astype(float) for p in ints])
    dt = {"int64": np.int64, "int32": np.int32, "float64": np.float64}[case["dtype"]]
    pts = [np.array(p, dtype=dt) for p in case["points"]]
    out = []
    for tag, f in (("v1", v1), ("v2", v2)):
        out += judge(tag, f(*pts), phi)
    return out


# ---------------------------------------------------------------------------
# corpus tier

BACKBONE = {
    "alpha": [("O3'", -1), ("P", 0), ("O5'", 0), ("C5'", 0)],
    "beta": [("P", 0), ("O5'", 0), ("C5'", 0), ("C4'", 0)],
    "gamma": [("O5'", 0), ("C5'", 0), ("C4'", 0), ("C3'", 0)],
    "delta": [("C5'", 0), ("C4'", 0), ("C3'", 0), ("O3'", 0)],
    "epsilon": [("C4'", 0), ("C3'", 0), ("O3'", 0), ("P", 1)],
    "zeta": [("C3'", 0), ("O3'", 0), ("P", 1), ("O5'", 1)],
}


def oracle_file(case) -> list:
    from rnapolis.parser import read_3d_structure
    from rnapolis.parser_v2 import parse_cif_atoms, parse_pdb_atoms
    from rnapolis.tertiary_v2 import Structure
    from rnapolis.common import GlycosidicBond

    path = os.path.join(REPO, "tests", case["file"])
    if case.get("variant") in ("icode-runs", "reverse-numbering"):
        return _with_renumbered_copy(path, case)
    if case.get("variant") == "stretched-glycosidic":
        return _with_stretched_copy(path, case)
    return _oracle_path(path, case)


STRETCH = [0.85, 1.1, 1.3, 1.55, 1.61, 1.75, 2.0, 2.3, 2.45]


def _with_stretched_copy(path, case):
    """the PDB file with every base slid rigidly along its own glycosidic bond (C1'->N9 for a base that has N9, else
    C1'->N1) so that the bond measures 0.85 ... 2.45 A, residue after residue: the dihedral about that bond and all
    bond angles stay what they were, only the bond LENGTH changes - refined, strained and coarse models do have such
    bonds, and a torsion angle is defined whatever the bond lengths are"""
    from rnaverif.runner import WORK_DIR

    with open(path) as f:
        lines = f.readlines()
    groups, order = {}, []
    for k, line in enumerate(lines):
        if line.startswith(("ATOM", "HETATM")) and len(line) >= 54:
            key = (line[21], line[22:27], line[16])
            if key not in groups:
                groups[key] = {}
                order.append(key)
            groups[key].setdefault(line[12:16].strip(), k)
    xyz = lambda k: np.array([float(lines[k][30:38]), float(lines[k][38:46]), float(lines[k][46:54])])
    for rank, key in enumerate(order):
        g = groups[key]
        n = g.get("N9", g.get("N1"))
        if "C1'" not in g or n is None:
            continue
        c1, nn = xyz(g["C1'"]), xyz(n)
        d = float(np.linalg.norm(nn - c1))
        if d < 0.5:
            continue
        shift = (nn - c1) / d * (STRETCH[(rank + case.get("phase", 0)) % len(STRETCH)] - d)
        for name, k in g.items():
            if "'" in name or name in ("P", "OP1", "OP2", "OP3", "O1P", "O2P", "O3P") or name.startswith("H"):
                continue
            q = xyz(k) + shift
            lines[k] = lines[k][:30] + f"{q[0]:8.3f}{q[1]:8.3f}{q[2]:8.3f}" + lines[k][54:]
    os.makedirs(WORK_DIR, exist_ok=True)
    tmp = os.path.join(WORK_DIR, f"c18_{os.getpid()}_stretch.pdb")
    with open(tmp, "w") as f:
        f.writelines(lines)
    try:
        return _oracle_path(tmp, case)
    finally:
        os.remove(tmp)


def _with_renumbered_copy(path, case):
    """the PDB file with its residues renumbered onto shared numbers with insertion codes (10, 10A, 11, 11A, ... as tRNA
    and rRNA numbering has them; coordinates untouched): every per-residue look-up then has to tell 10 from 10A"""
    from rnaverif.runner import WORK_DIR

    rank, lines = {}, []
    with open(path) as f:
        for line in f:
            if line.startswith(("ATOM", "HETATM")) and len(line) >= 27:
                key = (line[21], line[22:27])
                per_chain = rank.setdefault(line[21], {})
                if key not in per_chain:
                    per_chain[key] = len(per_chain)
                r = per_chain[key]
                if case.get("variant") == "reverse-numbering":
                    # a chain numbered against its strand direction (3' -> 5'): legal, hardly ever deposited
                    line = line[:22] + f"{5000 - r:>4} " + line[27:]
                else:
                    line = line[:22] + f"{10 + r // 2:>4}" + (" " if r % 2 == 0 else "A") + line[27:]
            elif line.startswith(("TER", "ANISOU", "SIGATM", "SIGUIJ", "MODRES", "LINK", "SSBOND", "CONECT", "HET ", "SITE")):
                continue
            lines.append(line)
    os.makedirs(WORK_DIR, exist_ok=True)
    tmp = os.path.join(WORK_DIR, f"c18_{os.getpid()}_icode.pdb")
    with open(tmp, "w") as f:
        f.writelines(lines)
    try:
        return _oracle_path(tmp, case)
    finally:
        os.remove(tmp)


def _oracle_path(path, case) -> list:
    from rnapolis.parser import read_3d_structure
    from rnapolis.parser_v2 import parse_cif_atoms, parse_pdb_atoms
    from rnapolis.tertiary_v2 import Structure

    out = []
    n_chi = 0
    with open(path) as f:
        s3 = read_3d_structure(f, None)
    coords = {}
    for r in s3.residues:
        pur = r.one_letter_name.upper() in ("A", "G")
        names = ["O4'", "C1'", "N9", "C4"] if pur else ["O4'", "C1'", "N1", "C2"]
        if r.one_letter_name.upper() not in "ACGUT":
            continue
        ats = [r.find_atom(n) for n in names]
        if any(a is None for a in ats):
            continue
        ref = ref_dihedral(*[np.array([a.x, a.y, a.z]) for a in ats])
        n_chi += 1
        coords[(r.chain, r.number, r.icode)] = ref
        got = r.chi
        ds = judge("chi-v1", got, ref)
        out += ds
        want_cls = expected_chi_class(ref)
        if want_cls is not None and getattr(r.chi_class, "value", None) != want_cls:
            out.append(D("C18:chi_class:wrong", f"{r.full_name}: chi {math.degrees(ref):.2f} deg classified {r.chi_class}"))
        # the same atoms under the other one-letter names a reader can hand over (lower case from MODRES parents,
        # 'N' from an entity_poly sequence, '?' when nothing could be guessed): chi is a property of the atoms -
        # O4'-C1'-N9-C4 when the base has N9, else O4'-C1'-N1-C2 - whatever the letter
        if len(coords) <= 40:
            from rnapolis.tertiary import Residue3D

            for letter in (r.one_letter_name.lower(), "N", "n", "?", "X"):
                r2 = Residue3D(r.label, r.auth, r.model, letter, r.atoms)
                ds2 = judge(f"chi-v1-letter-{'lower' if letter.islower() and letter != 'n' else letter}", r2.chi, ref)
                out += [D(d.sig, f"{r.full_name} as {letter!r}: {d.what}") for d in ds2]
                if ds2:
                    break
    # second implementation: torsion table
    with open(path) as f:
        table = parse_pdb_atoms(f) if case["file"].endswith(".pdb") else parse_cif_atoms(f)
    if "model" in table.columns:
        table = table[table["model"] == table["model"].iloc[0]]
    elif "pdbx_PDB_model_num" in table.columns:
        table = table[table["pdbx_PDB_model_num"] == table["pdbx_PDB_model_num"].iloc[0]]
    if case.get("variant") == "row-selection":
        # a row selection of the parsed table handed on as it is (every atom of every fifth residue of each chain and
        # all hydrogens dropped, index labels no longer 0..n-1) - what filtering a table and building a Structure gives
        fmt = table.attrs.get("format")
        ccol, ncol = ("chainID", "resSeq") if fmt == "PDB" else ("auth_asym_id", "auth_seq_id")
        ecol = "element" if fmt == "PDB" else "type_symbol"
        keep = ~((table[ncol].astype(int) % 5 == 0) | (table[ecol].astype(str) == "H"))
        attrs = dict(table.attrs)
        table = table[keep]
        table.attrs.update(attrs)
    if case.get("variant") == "backbone-gaps":
        # single inner backbone atoms left out (C5' / C4' / O5' / C3' of residues whose number is 1 / 2 / 3 / 4 mod 5):
        # partly modelled residues inside intact chains - every torsion defined over a missing atom has no value
        fmt = table.attrs.get("format")
        ncol, acol = ("resSeq", "name") if fmt == "PDB" else ("auth_seq_id", "auth_atom_id" if "auth_atom_id" in table.columns else "label_atom_id")
        gone = {1: "C5'", 2: "C4'", 3: "O5'", 4: "C3'"}
        num = table[ncol].astype(int) % 5
        names_ = table[acol].astype(str).str.strip().str.strip('"')
        keep = ~np.array([gone.get(int(m)) == nm for m, nm in zip(num, names_)])
        attrs = dict(table.attrs)
        table = table[keep]
        table.attrs.update(attrs)
    st = Structure(table)
    ta = st.torsion_angles
    n_tab = 0
    inverted = 0
    wrong, undefined, missing = [], [], []
    # reference values for the table from the v2 segments themselves (same atoms), own formula
    # who is bonded to whom is read off the coordinates (O3' of the 5' neighbour within 2.4 A of P), not off the order
    # in which the library lists a segment: the 5' / 3' neighbours in the torsion definitions are the BONDED ones
    everyone = [r for seg_ in st.connected_residues for r in seg_]
    o3 = [(r, np.array(r.find_atom("O3'").coordinates, dtype=float)) for r in everyone if r.find_atom("O3'") is not None]
    pp = [(r, np.array(r.find_atom("P").coordinates, dtype=float)) for r in everyone if r.find_atom("P") is not None]
    bonded_prev, bonded_next = {}, {}
    for r, p_xyz in pp:
        cands = [(float(np.linalg.norm(p_xyz - o_xyz)), q) for q, o_xyz in o3 if q is not r]
        cands = [c for c in cands if c[0] < 2.4]
        if cands:
            q = min(cands, key=lambda c: c[0])[1]
            bonded_prev[id(r)] = q
            bonded_next[id(q)] = r
    for seg in st.connected_residues:
        for i, res in enumerate(seg):
            rows = ta[(ta["chain_id"] == res.chain_id) & (ta["residue_number"] == res.residue_number)]
            ic = res.insertion_code
            rows = rows[rows["insertion_code"].isna()] if ic is None else rows[rows["insertion_code"] == ic]
            if len(rows) != 1:
                continue
            row = rows.iloc[0]
            for name, spec in BACKBONE.items():
                pts, listed = [], True
                for an, off in spec:
                    who = res
                    if off != 0:
                        # the neighbour the segment lists is taken when it IS bonded on that side (where overlapping
                        # conformers offer several partners within bonding distance any of them is right); otherwise
                        # the residue the coordinates say is bonded there, if any
                        k = i + off
                        listed_nb = seg[k] if 0 <= k < len(seg) else None
                        five, three = (listed_nb, res) if off < 0 else (res, listed_nb)
                        ok = False
                        if listed_nb is not None and five.find_atom("O3'") is not None and three.find_atom("P") is not None:
                            ok = float(np.linalg.norm(np.array(five.find_atom("O3'").coordinates, dtype=float) - np.array(three.find_atom("P").coordinates, dtype=float))) < 2.4
                        who = listed_nb if ok else (bonded_prev.get(id(res)) if off < 0 else bonded_next.get(id(res)))
                    a = who.find_atom(an) if who is not None else None
                    pts.append(None if a is None else np.array(a.coordinates, dtype=float))
                    k = i + off
                    if off != 0 and not (0 <= k < len(seg) and seg[k] is who):
                        listed = False  # the bonded neighbour is not the one listed next to it in the segment
                val = row[name]
                absent = val is None or (isinstance(val, float) and math.isnan(val))
                if any(p is None for p in pts):
                    # one of the four defining atoms does not exist (no bonded neighbour on that side, missing atom):
                    # the torsion is not defined, so any number in the table is a wrong value
                    if not absent:
                        undefined.append((str(res), name, float(val)))
                    continue
                if absent:
                    if listed:
                        missing.append((str(res), name))
                    continue
                ref = ref_dihedral(*pts)
                n_tab += 1
                if angdiff(float(val), ref) > 1e-6:
                    if angdiff(float(val), -ref) <= 1e-6:
                        inverted += 1
                    else:
                        wrong.append((str(res), name, float(val), ref))
            val = row["chi"]
            rn = res.residue_name
            names = (["O4'", "C1'", "N9", "C4"] if rn in ("A", "G", "DA", "DG") else
                     ["O4'", "C1'", "N1", "C2"] if rn in ("C", "U", "T", "DC", "DT") else None)
            standard = names is not None
            if names is None:
                # modified / unknown residue: if the table reports a chi at all it must be the glycosidic torsion
                # of the atoms - defined by the nitrogen actually bonded to C1' (within 1.7 A); C-glycosides and
                # residues without such a nitrogen are left alone
                c1 = res.find_atom("C1'")
                if c1 is not None:
                    for nn, cc in (("N9", "C4"), ("N1", "C2")):
                        na = res.find_atom(nn)
                        if na is not None and float(np.linalg.norm(np.array(na.coordinates, dtype=float) - np.array(c1.coordinates, dtype=float))) <= 1.7:
                            names = ["O4'", "C1'", nn, cc]
                            break
            if standard and (val is None or (isinstance(val, float) and math.isnan(val))) and all(res.find_atom(n) is not None for n in names):
                # a standard nucleotide with all four defining atoms: chi is defined, the table must have it
                missing.append((str(res), "chi"))
            if names and val is not None and not (isinstance(val, float) and math.isnan(val)):
                ats = [res.find_atom(n) for n in names]
                if all(a is not None for a in ats):
                    n_tab += 1
                    ref = ref_dihedral(*[np.array(a.coordinates, dtype=float) for a in ats])
                    if angdiff(float(val), ref) > 1e-6:
                        if angdiff(float(val), -ref) <= 1e-6:
                            inverted += 1
                        else:
                            wrong.append((str(res), "chi", float(val), ref))
    if inverted:
        out.append(D("C18:v2:sign-inverted", f"{case['file']}: {inverted} of {n_tab} torsion-table values equal -IUPAC (e.g. chi of A-form residues reads +160 instead of -160 deg)"))
    if wrong:
        out.append(D("C18:v2-table:wrong-value", f"{case['file']}: {wrong[:3]}"))
    if undefined:
        out.append(D("C18:v2-table:value-for-undefined-torsion", f"{case['file']}: a number is reported although a defining atom does not exist: {undefined[:3]}"))
    if missing:
        out.append(D("C18:v2-table:defined-torsion-missing", f"{case['file']}: all four defining atoms exist but the table is empty: {missing[:3]}"))
    case["_counts"] = (n_chi, n_tab)
    seen, uniq = set(), []
    for d in out:
        if d.sig not in seen:
            seen.add(d.sig)
            uniq.append(d)
    return uniq


QUICK_FILES = ["4qln.pdb", "1ehz-assembly-1.cif", "184D.cif", "1ATO.pdb"]


def corpus_files():
    import gzip  # noqa
    fs = []
    for fn in sorted(os.listdir(os.path.join(REPO, "tests"))):
        if fn.endswith((".cif", ".pdb")) and os.path.getsize(os.path.join(REPO, "tests", fn)) > 0:
            fs.append(fn)
    return fs


def plan(tier, seed):
    specs = []
    if tier == "quick":
        specs += [{"kind": "built", "examples": 1200, "seed": seed * 1000 + k} for k in range(14)]
        specs += [{"kind": "lattice", "examples": 1500, "seed": seed * 1000 + 700}]
        specs += [{"kind": "corpus", "files": [f]} for f in QUICK_FILES]
        specs += [{"kind": "corpus", "files": ["1ATO.pdb"], "variant": "icode-runs"}, {"kind": "corpus", "files": ["1ATO.pdb"], "variant": "row-selection"},
                  {"kind": "corpus", "files": ["1ATO.pdb"], "variant": "reverse-numbering"},
                  {"kind": "corpus", "files": ["1ATO.pdb"], "variant": "backbone-gaps"}, {"kind": "corpus", "files": ["184D.cif"], "variant": "backbone-gaps"},
                  {"kind": "corpus", "files": ["1ATO.pdb"], "variant": "stretched-glycosidic"}, {"kind": "corpus", "files": ["488d.pdb"], "variant": "stretched-glycosidic", "phase": 4},
                  {"kind": "corpus", "files": ["184D.cif"], "variant": "row-selection"}]
    else:
        specs += [{"kind": "built", "examples": 60000, "seed": seed * 1000 + k} for k in range(16)]
        specs += [{"kind": "lattice", "examples": 40000, "seed": seed * 1000 + 700 + k} for k in range(4)]
        specs += [{"kind": "corpus", "files": [f]} for f in corpus_files()]
        specs += [{"kind": "corpus", "files": [f], "variant": "icode-runs"} for f in corpus_files() if f.endswith(".pdb")]
        specs += [{"kind": "corpus", "files": [f], "variant": "row-selection"} for f in corpus_files()]
        specs += [{"kind": "corpus", "files": [f], "variant": "reverse-numbering"} for f in corpus_files() if f.endswith(".pdb")]
        specs += [{"kind": "corpus", "files": [f], "variant": "backbone-gaps"} for f in corpus_files()]
        specs += [{"kind": "corpus", "files": [f], "variant": "stretched-glycosidic", "phase": ph} for f in corpus_files() if f.endswith(".pdb") for ph in (0, 3, 6)]
    return specs


def _strategy():
    from hypothesis import strategies as st

    special = [0.0, math.pi / 2, -math.pi / 2, math.pi, math.radians(-160), math.radians(60), math.radians(-60)]
    phi = st.one_of(
        st.floats(-math.pi, math.pi, exclude_min=True, allow_nan=False),
        st.tuples(st.sampled_from(special), st.floats(-0.01, 0.01)).map(lambda t: max(-math.pi + 1e-15, min(math.pi, t[0] + t[1]))),
        st.sampled_from(special),
    )
    length = st.floats(0.8, 2.5)
    ang = st.floats(math.radians(20), math.radians(160))
    q = st.tuples(*[st.floats(-1, 1) for _ in range(4)]).filter(lambda t: sum(x * x for x in t) > 1e-3)
    shift = st.one_of(st.just((0.0, 0.0, 0.0)), st.tuples(*[st.floats(-500, 500) for _ in range(3)]))
    return st.fixed_dictionaries({"phi": phi, "l1": length, "l2": length, "l3": length, "t1": ang, "t2": ang,
                                  "q": q.map(list), "shift": shift.map(list)})


def classify(case):
    phi = case["phi"]
    nt = 0.05 < abs(phi) < math.pi - 0.05 and abs(case["t1"] - math.pi / 2) > math.radians(1) and abs(case["t2"] - math.pi / 2) > math.radians(1)
    labs = []
    if abs(phi) < 0.05:
        labs.append("phi~0")
    elif abs(phi) > math.pi - 0.05:
        labs.append("phi~pi")
    elif abs(abs(phi) - math.pi / 2) < 0.05:
        labs.append("phi~+-pi/2")
    labs.append("phi>0" if phi > 0 else "phi<=0")
    if any(case["shift"]):
        labs.append("translated")
    return nt, labs


def run_shard(spec) -> ShardResult:
    res = ShardResult()
    if spec["kind"] == "built":
        run_hypothesis(PROP_ID, _strategy(), oracle_built, seed=spec["seed"], max_examples=spec["examples"], result=res,
                       classify=classify)
        res.exhaustive = False
    elif spec["kind"] == "lattice":
        from hypothesis import strategies as st

        pt = st.lists(st.integers(-6, 6), min_size=3, max_size=3)
        strat = st.fixed_dictionaries({"points": st.lists(pt, min_size=4, max_size=4), "dtype": st.sampled_from(["int64", "int32", "float64"])})
        run_hypothesis(PROP_ID, strat, oracle_lattice, seed=spec["seed"], max_examples=spec["examples"], result=res,
                       classify=lambda c: (not c.get("_degenerate", True), ["lattice-" + c["dtype"]] + (["degenerate-skipped"] if c.get("_degenerate", True) else [])),
                       to_json=lambda c: {k: v for k, v in c.items() if not k.startswith("_")})
        res.exhaustive = False
    elif spec["kind"] == "corpus":
        for fn in spec["files"]:
            case = {"file": fn}
            if spec.get("variant"):
                case["variant"] = spec["variant"]
            if spec.get("phase"):
                case["phase"] = spec["phase"]
            check_case(PROP_ID, oracle_file, case, res, to_json=lambda c: {k: v for k, v in c.items() if not k.startswith("_")})
            n_chi, n_tab = case.get("_counts", (0, 0))
            res.note_case({"file": fn, "variant": spec.get("variant"), "chi_values": n_chi, "table_values": n_tab}, n_chi > 0,
                          ["corpus-file"] + ({"icode-runs": ["renumbered-onto-insertion-code-runs"], "row-selection": ["table-is-a-row-selection"], "reverse-numbering": ["chain-numbered-3'-to-5'"], "stretched-glycosidic": ["glycosidic-bonds-0.85-to-2.45-A"], "backbone-gaps": ["single-backbone-atoms-missing-inside-chains"]}.get(spec.get("variant"), [])))
            res.extra["corpus_chi_values"] = res.extra.get("corpus_chi_values", 0) + n_chi
            res.extra["corpus_table_values"] = res.extra.get("corpus_table_values", 0) + n_tab
        res.exhaustive = False
    else:
        raise HarnessError(spec["kind"])
    return res


def replay(case):
    if "points" in case:
        return oracle_lattice(dict(case))
    if "file" in case:
        return oracle_file(dict(case))
    return oracle_built(case)
