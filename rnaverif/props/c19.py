"""C19 - external-tool output is imported totally and faithfully."""

from __future__ import annotations

import itertools
import json
import os
import re

from rnaverif import corpus
from rnaverif.runner import D, HarnessError, ShardResult, WORK_DIR, case_hash, check_case, run_hypothesis

PROP_ID = "C19"
LEVEL = "exploration"
SIGMA = "nactCTwhsWHSBPR0359"
RULE = (
    "(1) Labels: EXHAUSTIVE enumeration of every string of length <=5 (quick) / <=6 (thorough, 47M) over the FR3D "
    "alphabet 'n a c t C T w h s W H S B P R 0 3 5 9' against a three-valued reference classifier written from the "
    "statement (definite: [n]+LW class in any case+[a] -> base pair of the normalised class; s33/s35/s53/s55 -> "
    "stacking; dBPh/dBR -> class d; no reading -> other; left open: affixes on stacking/BPh/BR labels, upper-case N, "
    "upper-case S in stacking labels - either reading accepted). (2) Listings: Hypothesis-drawn files mixing valid "
    "lines (5-9 '|' fields, negative numbers, insertion codes, symmetry suffixes, extra tab fields), near misses (4 "
    "fields, non-numeric number, 2 tab fields, empty lines, comments) and arbitrary text: never raises, "
    "#interactions == #lines with >=3 tab fields and two well-formed ids, each with exactly the written chain, "
    "number, icode (empty -> None), name, in file order, filed under the category/class of its label, unrecognised "
    "labels in otherInteractions. (3) DSSR JSON documents over a corpus structure's residue names: pairs with nt1/nt2 "
    "resolvable / model-prefixed / unresolvable / missing and LW valid / 'cW.' / '--' / '' / null / missing / "
    "attribute-like names; stacks with mixed members; single- and multi-model documents: result == exactly the "
    "resolvable valid pairs in order and the consecutive resolvable stack members. (4) Coverage-guided fuzzing (atheris / "
    "libFuzzer, instrumenting rnapolis.adapter) of the listing import with the same oracle inside the target, from an "
    "empty corpus and from a corpus of small valid listings (the units libFuzzer keeps count as distinct non-trivial "
    "cases). Non-trivial: label with at least one "
    "reading (by the reference or by the tool); listing with >=1 valid, >=1 near-miss and >=1 other line; distinct = distinct string / document."
)
ASSUMPTIONS = [
    "number fields of generated unit ids are restricted to -?[0-9]+ or clearly non-numeric text, so Python-int leniency ('1_0', '+1', ' 1') is not part of the oracle",
    "labels the statement leaves open (affixes on stacking/BPh/BR labels, upper-case N prefix, upper-case S stacking) accept either reading",
    "DSSR documents are JSON objects whose nts_long values are strings",
    "fuzz tier: inputs whose number fields are neither plain ASCII integers nor free of digit-like characters are checked for 'never raises' only (Python-int leniency); libFuzzer campaigns are pinned by -seed/-runs only approximately - a saved crashing input is the reproducible unit",
    "trusted: the reference classifier in this module",
]

# ---------------------------------------------------------------------------
# reference label classifier

LW18 = [c + a + b for c in "ct" for a in "WHS" for b in "WHS"]
STACK = {"s33": "downward", "s55": "upward", "s35": "outward", "s53": "inward"}
CORE = {}
for _c in "cCtT":
    for _a in "wWhHsS":
        for _b in "wWhHsS":
            CORE[_c + _a + _b] = ("base-pair", _c.lower() + _a.upper() + _b.upper())
for _k, _v in STACK.items():
    CORE[_k] = ("stacking", _v)
for _d in "0123456789":
    CORE[_d + "BPh"] = ("base-phosphate", _d + "BPh")
    CORE[_d + "BR"] = ("base-ribose", _d + "BR")
OPEN_CORE = {}
for _k, _v in STACK.items():
    OPEN_CORE["S" + _k[1:]] = ("stacking", _v)
OTHER = ("other", None)


def acceptable(label: str):
    """set of acceptable (category, class) outcomes for a label"""
    if not label.isascii():
        # "in any letter case" read over Unicode: a character whose upper or lower case is an ASCII letter (the long
        # s, the Kelvin sign ...) may or may not count as that letter - the statement does not say, so both the plain
        # reading and the case-mapped reading are accepted
        mapped = "".join(ch if ch.isascii() else (ch.upper() if ch.upper().isascii() and len(ch.upper()) == 1 else
                                                   ch.lower() if ch.lower().isascii() and len(ch.lower()) == 1 else ch) for ch in label)
        plain = {OTHER}
        return plain | (acceptable(mapped) if mapped.isascii() else set())
    definite = set()
    open_ = set()
    variants = [(label, False, False)]
    if label[:1] in ("n", "N"):
        variants.append((label[1:], True, label[0] == "N"))
    if label.endswith("a") and len(label) >= 2:
        variants.append((label[:-1], True, False))
        if label[:1] in ("n", "N"):
            variants.append((label[1:-1], True, label[0] == "N"))
    for core, affixed, capital_n in variants:
        r = CORE.get(core)
        if r is not None:
            if r[0] == "base-pair" and not capital_n:
                definite.add(r)
            elif not affixed:
                definite.add(r)
            else:
                open_.add(r)
        r2 = OPEN_CORE.get(core)
        if r2 is not None:
            open_.add(r2)
    if definite:
        return definite | (open_ if len(definite) > 1 else set())
    return {OTHER} | open_


def norm_result(res):
    cat, cls = res
    if cls is None:
        return (cat, None)
    return (cat, getattr(cls, "value", cls))


def label_shard(prefixes, maxlen, res: ShardResult):
    from rnapolis.adapter import unify_classification

    n = 0
    nt = 0
    bad = {}
    samples = []
    for pre in prefixes:
        for L in range(0, maxlen - len(pre) + 1):
            for tail in itertools.product(SIGMA, repeat=L):
                label = pre + "".join(tail)
                n += 1
                try:
                    got = norm_result(unify_classification(label))
                except Exception as e:  # "never raises"
                    got = ("EXC", type(e).__name__)
                acc = acceptable(label)
                if got != OTHER or acc != {OTHER}:
                    nt += 1
                    res.nontrivial.add(case_hash({"label": label}))
                    if len(samples) < 3 and len(label) >= 3:
                        samples.append({"label": label, "result": list(got)})
                if got not in acc:
                    if got[0] == "EXC":
                        sig = f"C19:label:raises:{got[1]}"
                    elif got == OTHER:
                        sig = f"C19:label:recognised-label-dropped-to-other:{sorted(acc)[0][0]}"
                    elif acc == {OTHER}:
                        sig = f"C19:label:unrecognised-label-classified:{got[0]}"
                    else:
                        sig = f"C19:label:wrong-class:{got[0]}"
                    if sig not in bad or len(label) < len(bad[sig][0]):
                        bad[sig] = (label, got, sorted(acc, key=str))
    res.evaluations += n
    res.extra["labels_enumerated"] = res.extra.get("labels_enumerated", 0) + n
    res.extra["labels_nontrivial"] = res.extra.get("labels_nontrivial", 0) + nt
    res.samples.extend(samples[:2])
    res.classes["label"] += n
    res.classes["label-with-a-reading"] += nt
    for sig, (label, got, acc) in bad.items():
        res.failures.append({"sig": sig, "what": f"label {label!r} -> {got}, acceptable {acc}", "case": {"kind": "label", "label": label}})


# ---------------------------------------------------------------------------
# FR3D listings

NUMRE = re.compile(r"-?[0-9]+\Z")


def unit_wellformed(u: str):
    f = u.split("|")
    if len(f) < 5 or not NUMRE.match(f[4]):
        return None
    icode = f[7] if len(f) >= 8 and f[7] != "" else None
    return (f[2], int(f[4]), icode, f[3])


def expected_listing(text: str):
    exp = {"base-pair": [], "stacking": [], "base-ribose": [], "base-phosphate": [], "other": []}
    n = 0
    classes = {"valid": 0, "near": 0, "other": 0}
    for raw in text.split("\n"):
        line = raw.strip()
        if not line or line.startswith("#"):
            continue
        parts = line.split("\t")
        if len(parts) < 3:
            classes["near"] += 1
            continue
        u1, u2 = unit_wellformed(parts[0]), unit_wellformed(parts[2])
        if u1 is None or u2 is None:
            classes["near"] += 1
            continue
        acc = acceptable(parts[1])
        n += 1
        if acc == {OTHER}:
            classes["other"] += 1
        else:
            classes["valid"] += 1
        exp_entry = (u1, u2, acc)
        exp.setdefault("_all", []).append(exp_entry)
    return exp.get("_all", []), n, classes


def oracle_listing(case):
    text = case["text"]
    os.makedirs(WORK_DIR, exist_ok=True)
    p = os.path.join(WORK_DIR, f"c19_{os.getpid()}.txt")
    with open(p, "w", newline="") as f:
        f.write(text)
    try:
        return oracle_listing_on_file(p, text.replace("\r\n", "\n"), case)
    finally:
        os.remove(p)


def oracle_listing_on_file(p, text, case=None):
    """`text` is the file's content with universal newlines applied (what iterating the open file yields)"""
    from rnapolis.adapter import parse_fr3d_output

    case = case if case is not None else {}
    out = []
    try:
        bi = parse_fr3d_output(p)
    except Exception as e:
        from rnaverif.runner import sut_location
        return [D(f"C19:listing:raises:{type(e).__name__}@{sut_location(e.__traceback__)}", f"{type(e).__name__}: {str(e)[:160]} on {text[:200]!r}")]
    exp, n, classes = expected_listing(text)
    case["_classes"] = classes
    def ident(nt):
        a = nt.auth
        return (a.chain, a.number, a.icode, a.name) if a is not None else None

    def cls_of(cat, it):
        if cat == "base-pair":
            return it.lw.value if it.lw is not None else None
        if cat == "stacking":
            return it.topology.value if it.topology is not None else None
        if cat == "base-ribose":
            return it.br.value if it.br is not None else None
        if cat == "base-phosphate":
            return it.bph.value if it.bph is not None else None
        return None

    lists = {"base-pair": bi.basePairs, "stacking": bi.stackings, "base-ribose": bi.baseRiboseInteractions,
             "base-phosphate": bi.basePhosphateInteractions, "other": bi.otherInteractions}
    for cat, lst in lists.items():
        for it in lst:
            if it.nt1 is None or it.nt2 is None:
                # an interaction without one of its residues is no interaction of the listing at all
                return [D(f"C19:listing:interaction-without-residue", f"a {cat} entry has nt1={it.nt1!r} nt2={it.nt2!r} for {text[:200]!r}")]
    got_lists = {cat: [(ident(it.nt1), ident(it.nt2), cls_of(cat, it), it.nt1.label is None and it.nt2.label is None) for it in lst]
                 for cat, lst in lists.items()}
    return out + match_listing("listing", exp, n, got_lists, text)


def match_listing(tag, exp, n, got_lists, text):
    """got_lists: category -> [(unit1, unit2, class value, no-label flag)] in the order the importer filed them"""
    out = []
    total = sum(len(v) for v in got_lists.values())
    if total != n:
        out.append(D(f"C19:{tag}:interaction-count", f"{total} interactions for {n} lines with two well-formed unit ids in {text[:300]!r}"))
    # match the expected entries, in order, to the heads of acceptable category lists. A label with an open reading
    # may be filed in either of two lists, so the assignment is searched (depth-first with memoisation), not greedy
    cats = sorted(got_lists)
    import sys
    sys.setrecursionlimit(max(sys.getrecursionlimit(), 20000))
    dead = set()

    def place(k, cursors):
        if k == len(exp):
            return True
        key = (k, cursors)
        if key in dead:
            return False
        u1, u2, acc = exp[k]
        for cat, cl in sorted(acc, key=str):
            ci = cats.index(cat)
            c = cursors[ci]
            lst = got_lists[cat]
            if c < len(lst):
                g1, g2, gcl, nolabel = lst[c]
                if g1 == u1 and g2 == u2 and gcl == cl and nolabel:
                    nxt = cursors[:ci] + (c + 1,) + cursors[ci + 1:]
                    if place(k + 1, nxt):
                        return True
        dead.add(key)
        return False

    if len(exp) <= 3000 and not place(0, tuple(0 for _ in cats)):
        # report the first line that cannot be placed under a greedy pass (for the message only)
        cursors = {k: 0 for k in got_lists}
        bad = None
        for u1, u2, acc in exp:
            placed = False
            for cat, cl in sorted(acc, key=str):
                lst = got_lists[cat]
                c = cursors[cat]
                if c < len(lst) and lst[c][0] == u1 and lst[c][1] == u2 and lst[c][2] == cl and lst[c][3]:
                    cursors[cat] += 1
                    placed = True
                    break
            if not placed:
                bad = (u1, u2, acc)
                break
        u1, u2, acc = bad if bad else exp[-1]
        out.append(D(f"C19:{tag}:line-not-imported-faithfully",
                     f"line {u1} -> {u2} with acceptable {sorted(acc, key=str)} cannot be matched: the imported lists are not the lines in order, each in an acceptable list"))
    return out


# ---------------------------------------------------------------------------
# command line: adapter.main --tool fr3d|dssr --json/--csv


def _run_adapter_cli(argv):
    import contextlib
    import io
    import sys

    import rnapolis.adapter as ad

    old = sys.argv
    buf, err = io.StringIO(), io.StringIO()
    try:
        sys.argv = ["adapter"] + argv
        with contextlib.redirect_stdout(buf), contextlib.redirect_stderr(err):
            ad.main()
    finally:
        sys.argv = old
    return buf.getvalue()


def oracle_cli(case):
    """adapter.main on a corpus structure and a generated FR3D listing over that structure's own residues: the JSON it
    writes must file every line exactly as the listing oracle says (same oracle as for parse_fr3d_output)"""
    import shutil

    s3 = corpus.structure(case["file"])
    residues = [r for r in s3.residues if r.auth is not None]
    if len(residues) < 2:
        raise HarnessError("corpus file without author identities: " + case["file"])

    def unit(k, form):
        a = residues[k % len(residues)].auth
        ic = a.icode or ""
        if form == 0 and not ic:
            return f"XXXX|1|{a.chain}|{a.name}|{a.number}"
        if form == 1:
            return f"XXXX|1|{a.chain}|{a.name}|{a.number}|||{ic}|1_555"
        return f"XXXX|1|{a.chain}|{a.name}|{a.number}|||{ic}"

    lines = []
    for e in case["entries"]:
        if e.get("raw") is not None:
            lines.append(e["raw"])
            continue
        k1, k2 = e["r1"], e["r2"]
        if k1 % len(residues) == k2 % len(residues):
            k2 = k1 + 1
        lines.append(f"{unit(k1, e['form'])}\t{e['label']}\t{unit(k2, e['form'])}" + ("" if (k1 + k2) % 5 == 0 else "\t0"))
    text = "\n".join(lines) + "\n"
    os.makedirs(WORK_DIR, exist_ok=True)
    base = os.path.join(WORK_DIR, f"c19cli_{os.getpid()}")
    shutil.rmtree(base, ignore_errors=True)
    os.makedirs(base)
    out = []
    try:
        listing = os.path.join(base, "listing.txt")
        with open(listing, "w") as f:
            f.write(text)
        jpath = os.path.join(base, "out.json")
        argv = [os.path.join(corpus.TESTS, case["file"]), "--external", listing, "--tool", "fr3d", "--json", jpath] + list(case.get("flags", []))
        try:
            _run_adapter_cli(argv)
        except SystemExit as e:
            if e.code not in (0, None):
                return [D("C19:cli:exit", f"adapter exited with {e.code}")]
        except Exception as e:
            from rnaverif.runner import sut_location
            loc = sut_location(e.__traceback__)
            return [D(f"C19:cli:raises:{type(e).__name__}@{loc}", f"{type(e).__name__}: {str(e)[:160]} on {text[:200]!r}")]
        with open(jpath) as f:
            doc = json.load(f)
    finally:
        shutil.rmtree(base, ignore_errors=True)
    bi = doc.get("baseInteractions") or {}

    def ident(nt):
        a = (nt or {}).get("auth")
        return (a["chain"], a["number"], a["icode"], a["name"]) if a else None

    keys = {"base-pair": ("basePairs", "lw"), "stacking": ("stackings", "topology"), "base-ribose": ("baseRiboseInteractions", "br"),
            "base-phosphate": ("basePhosphateInteractions", "bph"), "other": ("otherInteractions", None)}
    got_lists = {}
    for cat, (key, field) in keys.items():
        got_lists[cat] = [(ident(it.get("nt1")), ident(it.get("nt2")), it.get(field) if field else None,
                           (it.get("nt1") or {}).get("label") is None and (it.get("nt2") or {}).get("label") is None)
                          for it in bi.get(key, [])]
    exp, n, classes = expected_listing(text)
    case["_classes"] = classes
    return out + match_listing("cli", exp, n, got_lists, text)


def st_cli(files):
    from hypothesis import strategies as st

    labels = st.one_of(
        st.sampled_from(LW18 + list(STACK) + ["0BPh", "4BPh", "9BPh", "0BR", "7BR", "ncWW", "cWWa", "ncSs", "tsS", "CWW", "perp", "bif", "10BPh"]),
        st.text(alphabet=SIGMA, min_size=1, max_size=5))
    entry = st.one_of(
        st.fixed_dictionaries({"r1": st.integers(0, 400), "r2": st.integers(0, 400), "label": labels, "form": st.integers(0, 2)}),
        st.fixed_dictionaries({"raw": st.sampled_from(["# comment", "", "XXXX|1|A|G\tcWW\tXXXX|1|A|C|2", "A.G1\tcWW\tA.C2", "XXXX|1|A|G|x\tcWW\tXXXX|1|A|C|2\t0", "junk"])}),
    )
    return st.fixed_dictionaries({"kind": st.just("cli"), "file": st.sampled_from(files), "entries": st.lists(entry, min_size=1, max_size=10),
                                  "flags": st.sampled_from([[], [], ["-a"], ["-e"], ["-f"]])})


def st_listing(tiles=None, min_lines=0):
    from hypothesis import strategies as st

    chain = st.sampled_from(["A", "B", "A-2", "AA", "x", "1"])
    name = st.sampled_from(["G", "C", "A", "U", "DG", "DC", "PSU", "5MC", "N"])
    number = st.integers(-50, 3000)
    icode = st.sampled_from(["", "", "", "A", "B"])
    labels = st.one_of(
        st.sampled_from(LW18 + list(STACK) + ["0BPh", "4BPh", "9BPh", "0BR", "7BR", "ncWW", "cWWa", "ncSs", "tsS", "CWW",
                                              "ns55", "n0BR", "perp", "", "cWB", "c", "cW", "s3", "s34", "10BPh", "BPh", "0BP",
                                              "nn", "a", "na", "ncWWaa", "bif", "?", "cWW "]),
        st.text(alphabet=SIGMA, min_size=0, max_size=6),
    )

    @st.composite
    def unit(draw, good=True):
        ch, nm, num, ic = draw(chain), draw(name), draw(number), draw(icode)
        form = draw(st.integers(0, 5)) if good else draw(st.integers(6, 9))
        pdb = draw(st.sampled_from(["XXXX", "1EHZ", ""]))
        if form == 0:
            return f"{pdb}|1|{ch}|{nm}|{num}"
        if form == 1:
            return f"{pdb}|1|{ch}|{nm}|{num}||"
        if form == 2:
            return f"{pdb}|1|{ch}|{nm}|{num}|||{ic}"
        if form == 3:
            return f"{pdb}|1|{ch}|{nm}|{num}|||{ic}|6_555"
        if form == 4:
            return f"{pdb}|2|{ch}|{nm}|{num}|N1||{ic}"
        if form == 5:
            return f"{pdb}|1|{ch}|{nm}|{num}|||"
        if form == 6:
            return f"{pdb}|1|{ch}|{nm}"  # 4 fields
        if form == 7:
            return f"{pdb}|1|{ch}|{nm}|{draw(st.sampled_from(['x', '', '12a', 'one', '1.5']))}"
        if form == 8:
            return draw(st.sampled_from(["", "A.G1", "|", "||||"]))
        return f"{ch}{num}"

    @st.composite
    def line(draw):
        kind = draw(st.sampled_from(["valid", "valid", "valid", "bad1", "bad2", "two", "empty", "comment", "text", "extra", "odd"]))
        lab = draw(labels)
        if "\t" in lab:
            lab = lab.replace("\t", "")
        if kind == "odd":
            # characters that str.splitlines() / str.split() treat as separators but a text file does not end a line
            # at (vertical tab, form feed, FS/GS/RS, NEL, LS, PS), non-ASCII letters, a byte-order mark: inside a field
            ch = draw(st.sampled_from(["\x0b", "\x0c", "\x1c", "\x1d", "\x1e", "\x85", "\u2028", "\u2029", "\u00e9", "\ufeff", "\u00a0", " ", "\u017f", "\u212a", "\u0131", "\u0661"]))
            where = draw(st.integers(0, 2))
            u1, u2 = draw(unit()), draw(unit())
            if where == 0:
                k = draw(st.integers(0, len(lab)))
                lab = lab[:k] + ch + lab[k:]
            elif where == 1:
                u1 = u1.replace("|", "|" + ch, 3).replace("|" + ch, "|", 2)  # inside the chain field
            else:
                u2 = u2 + ch + "x" if u2.count("|") >= 8 else u2
            return f"{u1}\t{lab}\t{u2}\t0"
        if kind == "valid":
            # with the crossing-number column, without it (three fields), or with an empty fourth field
            return f"{draw(unit())}\t{lab}\t{draw(unit())}" + draw(st.sampled_from(["\t0", "\t0", "\t0", "", "\t"]))
        if kind == "extra":
            return f"{draw(unit())}\t{lab}\t{draw(unit())}\t0\tx|y|z\t\t7"
        if kind == "bad1":
            return f"{draw(unit(False))}\t{lab}\t{draw(unit())}\t0"
        if kind == "bad2":
            return f"{draw(unit())}\t{lab}\t{draw(unit(False))}"
        if kind == "two":
            return f"{draw(unit())}\t{lab}"
        if kind == "empty":
            return draw(st.sampled_from(["", "   ", "\t"]))
        if kind == "comment":
            return "# " + draw(st.text(alphabet="abc |\t", max_size=10))
        return draw(st.text(alphabet="ab|1 \tcW", max_size=25))

    def assemble(t):
        lines, sep, final, repeat = list(t[0]), t[1], t[2], t[3]
        # FR3D groups its lines by the first nucleotide: a drawn line may take over the first column of the line before
        # it, well-formed or not (state carried from one line to the next would show here and nowhere else)
        for i in range(len(lines) - 1):
            if repeat[i] and "\t" in lines[i] and "\t" in lines[i + 1]:
                lines[i + 1] = lines[i].split("\t")[0] + "\t" + lines[i + 1].split("\t", 1)[1]
        # a listing of hundreds to thousands of lines (the drawn block repeated): counters, caches or limits that an
        # importer keeps over a whole file act here and nowhere in a listing of a dozen lines
        lines = lines * t[4]
        return {"kind": "listing", "text": sep.join(lines) + (sep if final else "")}

    return st.tuples(st.lists(line(), min_size=min_lines, max_size=12), st.sampled_from(["\n", "\n", "\r\n"]), st.booleans(),
                     st.lists(st.sampled_from([False, False, True]), min_size=12, max_size=12),
                     st.sampled_from(tiles or ([1] * 13 + [30, 60, 250]))).map(assemble)


def classify_listing(case):
    c = case.get("_classes", {"valid": 0, "near": 0, "other": 0})
    labs = ["listing"] + [k for k, v in c.items() if v]
    n = case.get("text", "").count("\n")
    if n >= 100:
        labs.append("listing-of-100+-lines" if n < 1000 else "listing-of-1000+-lines")
        if len(case.get("text", "")) > (1 << 20):
            labs.append("listing-larger-than-1-MiB")
        if c["near"] + c["other"] >= 100:
            labs.append("100+-unparsable-lines-in-one-listing")
    return c["valid"] >= 1 and c["near"] >= 1 and c["other"] >= 1, labs


# ---------------------------------------------------------------------------
# DSSR JSON


def oracle_dssr(case):
    from rnapolis.adapter import parse_dssr_output

    # a structure object of its own for every case (residues dropped as drawn), released when the case ends: the
    # importer is handed many short-lived structures in one process, as a batch script would
    from rnaverif import gen3d

    base = corpus.structure(case["file"])
    n0 = len(base.residues)
    drop = set()
    for d in case.get("thin", []):
        if n0 - len(drop) > 3:
            drop.add(d % n0)
    s3 = gen3d.rebuild(base, keep=set(range(n0)) - drop)
    names = [r.full_name for r in s3.residues]
    first = {}
    for r in s3.residues:
        first.setdefault(r.full_name, r)

    def resolve(ref):
        if ref is None:
            return None
        kind, k = ref
        if kind == "ok":
            return names[k % len(names)]
        if kind == "model":
            return "1:" + names[k % len(names)]
        if kind == "bad":
            return "Z.X" + str(k)
        return None  # missing

    def resolvable(ref):
        return ref is not None and ref[0] in ("ok", "model")

    def params(spec):
        pairs = []
        exp_pairs = []
        for p in spec["pairs"]:
            d = {}
            n1, n2 = resolve(p["nt1"]), resolve(p["nt2"])
            if p["nt1"] is not None and p["nt1"][0] != "missing":
                d["nt1"] = n1
            if p["nt2"] is not None and p["nt2"][0] != "missing":
                d["nt2"] = n2
            if p["lw"] != "<missing>":
                d["LW"] = p["lw"]
            d["index"] = len(pairs) + 1
            pairs.append(d)
            if resolvable(p["nt1"]) and resolvable(p["nt2"]) and p["lw"] in LW18:
                exp_pairs.append((names[p["nt1"][1] % len(names)], names[p["nt2"][1] % len(names)], p["lw"]))
        stacks = []
        exp_st = []
        for s in spec["stacks"]:
            members = [resolve(m) if m[0] != "missing" else "" for m in s]
            stacks.append({"index": len(stacks) + 1, "nts_long": ",".join(m if m is not None else "" for m in members), "num_nts": len(members)})
            for a, b in zip(s, s[1:]):
                if resolvable(a) and resolvable(b):
                    exp_st.append((names[a[1] % len(names)], names[b[1] % len(names)]))
        return {"num_pairs": len(pairs), "pairs": pairs, "stacks": stacks}, exp_pairs, exp_st

    model_arg = case.get("model")
    if case.get("multimodel"):
        docs = []
        exps = []
        for k, spec in enumerate(case["models"]):
            par, ep, es = params(spec)
            docs.append({"model": k + 1, "parameters": par})
            exps.append((ep, es))
        # the numbers the document gives its models (1..n as NMR ensembles have, or a subset / frames counted from 0 /
        # a re-ranked list): the request names a model by its NUMBER
        numbers = case.get("model_numbers")
        if numbers:
            numbers = numbers[:len(docs)] + [max(numbers) + 1 + k for k in range(len(docs) - len(numbers))]
            for d, num in zip(docs, numbers):
                d["model"] = num
            if model_arg is not None:
                model_arg = numbers[model_arg - 1]
        doc = {"models": docs}
        idx = 0 if case.get("model") is None else case["model"] - 1
        exp_pairs, exp_st = exps[idx]
    else:
        doc, exp_pairs, exp_st = params(case["models"][0])
        model_arg = None
    os.makedirs(WORK_DIR, exist_ok=True)
    p = os.path.join(WORK_DIR, f"c19_{os.getpid()}.json")
    with open(p, "w") as f:
        json.dump(doc, f)
    via = None
    try:
        try:
            bi = parse_dssr_output(p, s3, model_arg)
            if case.get("model") is None and case.get("structure_model") is not None:
                # the same document through process_external_tool_output with no model requested, on a structure whose
                # own model number is the drawn one (a conformer cut out of an ensemble keeps its number; frames are
                # counted from 0): "no model requested" means the document's first model, whatever the structure's number
                from rnapolis.adapter import ExternalTool, process_external_tool_output

                s3m = gen3d.rebuild(s3, model=case["structure_model"])
                via, _, _ = process_external_tool_output(s3m, p, ExternalTool.DSSR)
        except Exception as e:
            from rnaverif.runner import sut_location
            return [D(f"C19:dssr:raises:{type(e).__name__}@{sut_location(e.__traceback__)}", f"{type(e).__name__}: {str(e)[:160]}")]
    finally:
        os.remove(p)
    out = []
    if via is not None:
        vp = [(b.nt1.full_name, b.nt2.full_name, b.lw.value) for b in via.baseInteractions.basePairs]
        vs = [(x.nt1.full_name, x.nt2.full_name) for x in via.baseInteractions.stackings]
        if vp != exp_pairs or vs != exp_st:
            out.append(D("C19:dssr:process-external-differs", f"structure of model {case['structure_model']}, no model requested: {len(vp)} pairs / {len(vs)} stackings, the document's first model has {len(exp_pairs)} / {len(exp_st)}"))
    got_pairs = [(b.nt1.full_name, b.nt2.full_name, b.lw.value) for b in bi.basePairs]
    got_st = [(s.nt1.full_name, s.nt2.full_name) for s in bi.stackings]
    case["_n"] = (len(exp_pairs), len(exp_st))
    if got_pairs != exp_pairs:
        lost = [x for x in exp_pairs if x not in got_pairs][:2]
        extra = [x for x in got_pairs if x not in exp_pairs][:2]
        out.append(D("C19:dssr:pairs-differ", f"kept {len(got_pairs)} pairs, expected {len(exp_pairs)}; lost {lost}; invented {extra}"))
    if got_st != exp_st:
        lost = [x for x in exp_st if x not in got_st][:2]
        extra = [x for x in got_st if x not in exp_st][:2]
        out.append(D("C19:dssr:stackings-differ", f"kept {len(got_st)} stackings, expected {len(exp_st)}; lost {lost}; invented {extra}"))
    if bi.baseRiboseInteractions or bi.basePhosphateInteractions or bi.otherInteractions:
        out.append(D("C19:dssr:unexpected-lists", "DSSR import filled other interaction lists"))
    return out


def st_dssr(files):
    from hypothesis import strategies as st

    ref = st.one_of(st.tuples(st.sampled_from(["ok", "ok", "ok", "model", "bad", "missing"]), st.integers(0, 500)).map(list), st.none())
    lw = st.sampled_from(LW18 + ["cW.", "--", "", None, "<missing>", "__doc__", "__members__", "__class__", "cww", "cWWa", "reverse", "name", 5])
    pair = st.fixed_dictionaries({"nt1": ref, "nt2": ref, "lw": lw})
    member = st.tuples(st.sampled_from(["ok", "ok", "ok", "model", "bad", "missing"]), st.integers(0, 500)).map(list)
    spec = st.fixed_dictionaries({"pairs": st.lists(pair, max_size=8), "stacks": st.lists(st.lists(member, min_size=1, max_size=6), max_size=4)})

    @st.composite
    def build(draw):
        multi = draw(st.booleans())
        models = draw(st.lists(spec, min_size=1, max_size=3 if multi else 1))
        model = draw(st.one_of(st.none(), st.integers(1, len(models)))) if multi else None
        return {"kind": "dssr", "file": draw(st.sampled_from(files)), "multimodel": multi, "models": models, "model": model,
                "model_numbers": draw(st.sampled_from([None, None, [1, 3, 4], [0, 1, 2], [3, 1, 2], [2, 1], [5, 6, 7]])) if multi else None,
                "structure_model": draw(st.sampled_from([None, 1, 2, 0, 7])),
                "thin": draw(st.lists(st.integers(0, 500), max_size=6))}

    return build()


def classify_dssr(case):
    n = case.get("_n", (0, 0))
    labs = ["dssr"] + (["multimodel"] if case.get("multimodel") else [])
    if case.get("model_numbers") and case.get("model") is not None:
        labs.append("model-requested-by-a-number-other-than-its-position")
    if n[0]:
        labs.append("kept-pairs")
    if n[1]:
        labs.append("kept-stackings")
    dropped = any(not (p["lw"] in LW18) for m in case["models"] for p in m["pairs"])
    if dropped:
        labs.append("invalid-lw-present")
    return n[0] >= 1 and dropped, labs


# ---------------------------------------------------------------------------


def oracle(case):
    k = case.get("kind")
    if k == "listing":
        return oracle_listing(case)
    if k == "dssr":
        return oracle_dssr(case)
    if k == "cli":
        return oracle_cli(case)
    if k == "label":
        from rnapolis.adapter import unify_classification
        label = case["label"]
        try:
            got = norm_result(unify_classification(label))
        except Exception as e:
            return [D(f"C19:label:raises:{type(e).__name__}", f"label {label!r}")]
        acc = acceptable(label)
        if got in acc:
            return []
        if got == OTHER:
            sig = f"C19:label:recognised-label-dropped-to-other:{sorted(acc)[0][0]}"
        elif acc == {OTHER}:
            sig = f"C19:label:unrecognised-label-classified:{got[0]}"
        else:
            sig = f"C19:label:wrong-class:{got[0]}"
        return [D(sig, f"label {label!r} -> {got}, acceptable {sorted(acc, key=str)}")]
    if k == "unit":
        from rnapolis.adapter import parse_unit_id
        r = parse_unit_id(case["unit"])
        want = unit_wellformed(case["unit"])
        a = r.auth
        if (a.chain, a.number, a.icode, a.name) != want or r.label is not None:
            return [D("C19:unit-id:wrong-fields", f"{case['unit']!r} -> {(a.chain, a.number, a.icode, a.name)} expected {want}")]
        return []
    raise HarnessError(str(k))


def to_json(case):
    return {k: v for k, v in case.items() if not k.startswith("_")}


def plan(tier, seed):
    maxlen = 5 if tier == "quick" else 6
    specs = []
    # prefixes of length 2 partition the label space; plus the labels shorter than 2
    pre2 = ["".join(p) for p in itertools.product(SIGMA, repeat=2)]
    chunk = 23 if tier == "quick" else 6
    for k in range(0, len(pre2), chunk):
        specs.append({"kind": "labels", "prefixes": pre2[k:k + chunk], "maxlen": maxlen})
    specs.append({"kind": "labels-short"})
    n, ex = (8, 400) if tier == "quick" else (16, 10000)
    specs += [{"kind": "listing", "examples": ex, "seed": seed * 1000 + k} for k in range(n)]
    # listings of ribosome size: 30 000-80 000 lines, 1-4 MiB of text (buffers, size hints and block-wise reading act here)
    specs += [{"kind": "listing", "examples": 3 if tier == "quick" else 12, "seed": seed * 1000 + 50 + k, "tiles": [3000, 7000], "min_lines": 10} for k in range(2 if tier == "quick" else 8)]
    n, ex = (8, 150) if tier == "quick" else (16, 4000)
    specs += [{"kind": "dssr", "examples": ex, "seed": seed * 1000 + 100 + k, "files": corpus.SMALL[:6]} for k in range(n)]
    n, ex = (4, 40) if tier == "quick" else (16, 1500)
    specs += [{"kind": "cli", "examples": ex, "seed": seed * 1000 + 200 + k, "files": corpus.SMALL[:6]} for k in range(n)]
    # coverage-guided tier: empty corpus and a corpus of small valid inputs
    if tier == "quick":
        specs += [{"kind": "atheris", "runs": 30000, "seed": seed * 10 + 1, "seeded_corpus": True},
                  {"kind": "atheris", "runs": 30000, "seed": seed * 10 + 2, "seeded_corpus": False}]
    else:
        specs += [{"kind": "atheris", "runs": 1500000, "seed": seed * 10 + k, "seeded_corpus": k % 2 == 0} for k in range(1, 9)]
    return specs


def fuzz_shard(spec, res: ShardResult):
    """coverage-guided fuzzing of parse_fr3d_output (atheris/libFuzzer) with the listing oracle inside the target"""
    import glob
    import hashlib
    import shutil
    import subprocess
    import sys

    from rnaverif.runner import REPO, VERIF

    work = os.path.join(WORK_DIR, f"c19fuzz_{os.getpid()}_{spec['seed']}")
    shutil.rmtree(work, ignore_errors=True)
    corpus_dir = os.path.join(work, "corpus")
    os.makedirs(corpus_dir)
    if spec.get("seeded_corpus"):
        with open(os.path.join(REPO, "tests", "184D-fr3d.txt")) as f:
            lines = f.read().split("\n")
        for k in range(0, min(len(lines), 60), 6):
            with open(os.path.join(corpus_dir, f"seed{k}"), "w") as f:
                f.write("\n".join(lines[k:k + 6]))
        with open(os.path.join(corpus_dir, "icode"), "w") as f:
            f.write("1EHZ|1|A|U|17|||A\tncWWa\t1EHZ|1|A|G|-3|||B|6_555\t0\n# c\nX|1|A|G\ts35\tX|1|A|G|2\n")
        with open(os.path.join(corpus_dir, "unicode"), "w") as f:
            f.write("X|1|A|G|1\tcW\u017f\tX|1|A|C|2\t0\nX|1|A|G|1\tc\x0cWW\tX|1|B|C|2\t0\n")
    env = dict(os.environ, PYTHONPATH=os.pathsep.join([os.path.join(REPO, "src"), VERIF]), PYTHONHASHSEED="0",
               C19_FUZZ_TMP=work, LOGLEVEL="ERROR")
    cmd = ["/venv/bin/python", os.path.join(VERIF, "rnaverif", "c19_fuzz.py"), f"-runs={spec['runs']}", f"-seed={spec['seed']}",
           "-max_len=600", f"-artifact_prefix={work}/", "-print_final_stats=1", corpus_dir]
    try:
        p = subprocess.run(cmd, env=env, cwd=work, capture_output=True, text=True, timeout=3600)
        outp = p.stdout + p.stderr
        if "No module named 'atheris'" in outp or "cannot import name" in outp and "atheris" in outp:
            res.notes.append("atheris not installed: fuzz tier skipped")
            return
        m = re.search(r"Done (\d+) runs", outp)
        m2 = re.search(r"stat::number_of_executed_units:\s*(\d+)", outp)
        runs = int(m.group(1)) if m else (int(m2.group(1)) if m2 else 0)
        crashes = sorted(glob.glob(os.path.join(work, "crash-*")))
        units = len(os.listdir(corpus_dir))
        res.evaluations += runs
        res.classes["fuzz-executions"] += runs
        res.classes["fuzz-corpus-units"] += units
        res.extra["fuzz_executions"] = res.extra.get("fuzz_executions", 0) + runs
        for fn in sorted(os.listdir(corpus_dir))[:4000]:
            with open(os.path.join(corpus_dir, fn), "rb") as f:
                res.nontrivial.add(int.from_bytes(hashlib.sha1(f.read()).digest()[:8], "big"))
        if len(res.samples) < 2 and units:
            fn = sorted(os.listdir(corpus_dir))[-1]
            with open(os.path.join(corpus_dir, fn), "rb") as f:
                res.samples.append({"kind": "fuzz-corpus-unit", "text": f.read().decode("utf-8", "replace")[:300]})
        for c in crashes:
            with open(c, "rb") as f:
                text = f.read().decode("utf-8", "replace")
            case = {"kind": "listing", "text": text}
            ds = oracle_listing(case)
            if not ds:
                ds = [D("C19:fuzz:target-failed", f"fuzz target stopped on {text[:200]!r}: {outp[-400:]}")]
            for d in ds:
                if not any(f_["sig"] == d.sig for f_ in res.failures):
                    res.failures.append({"sig": d.sig, "what": d.what, "case": case})
        if p.returncode != 0 and not crashes:
            raise HarnessError(f"atheris run failed without a crash artifact (rc={p.returncode}): {outp[-600:]}")
        if runs == 0 and not crashes:
            raise HarnessError(f"atheris executed nothing: {outp[-600:]}")
    finally:
        shutil.rmtree(work, ignore_errors=True)


def run_shard(spec) -> ShardResult:
    res = ShardResult()
    if spec["kind"] == "atheris":
        fuzz_shard(spec, res)
        res.exhaustive = False
        return res
    if spec["kind"] == "labels":
        label_shard(spec["prefixes"], spec["maxlen"], res)
        res.exhaustive = True
    elif spec["kind"] == "labels-short":
        from rnapolis.adapter import unify_classification
        for label in [""] + list(SIGMA):
            case = {"kind": "label", "label": label}
            check_case(PROP_ID, oracle, case, res)
            res.evaluations += 1
        res.extra["labels_enumerated"] = 1 + len(SIGMA)
        res.exhaustive = True
    elif spec["kind"] == "listing":
        run_hypothesis(PROP_ID, st_listing(spec.get("tiles"), spec.get("min_lines", 0)), oracle, seed=spec["seed"], max_examples=spec["examples"], result=res,
                       to_json=to_json, classify=classify_listing, **({"shrink": False, "sample_cap": 0} if spec.get("tiles") else {}))
        res.exhaustive = False
    elif spec["kind"] == "cli":
        run_hypothesis(PROP_ID, st_cli(spec["files"]), oracle, seed=spec["seed"], max_examples=spec["examples"], result=res,
                       to_json=to_json, classify=lambda c: (classify_listing(c)[0], ["cli"] + classify_listing(c)[1][1:] + ["cli-flag:" + "".join(c.get("flags", [])) ]), sample_cap=1)
        res.exhaustive = False
    elif spec["kind"] == "dssr":
        run_hypothesis(PROP_ID, st_dssr(spec["files"]), oracle, seed=spec["seed"], max_examples=spec["examples"], result=res,
                       to_json=to_json, classify=classify_dssr, sample_cap=1)
        res.exhaustive = False
    else:
        raise HarnessError(spec["kind"])
    return res


def replay(case):
    return oracle(dict(case))
