"""C14 - outputs are a deterministic function of the input."""

from __future__ import annotations

import json
import os
import shutil
import subprocess
import sys

from rnaverif import ssref
from rnaverif.runner import D, HarnessError, REPO, ShardResult, VERIF, WORK_DIR, known_signatures

PROP_ID = "C14"
LEVEL = "exploration"
RULE = (
    "Inputs: corpus structure files (13 quick incl. quadruplexes with base multiplets, all parseable ones thorough), "
    "Hypothesis-drawn secondary structures with >=2 knotted components (40 quick / 400 thorough) and Hypothesis-drawn "
    "pair lists with multiplets/conflicts/duplicates mapped onto small corpus structures (24 quick / 400 thorough), and "
    "corpus structures re-emitted (PDB or mmCIF) with drawn residues renamed to non-standard names and thinned of drawn "
    "base atoms, so that name guessing and its ties are exercised (24 quick / 480 thorough). For each input a FRESH interpreter per "
    "PYTHONHASHSEED (quick: 0, 1, 2 and one VERIF_SEED-derived value; thorough: 0, 1, 2, 3, 42, 12345, 2**32-1 and "
    "one derived value) computes SHA-256 of every artefact twice in-process: interaction lists, write_json bytes, "
    "write_csv bytes, BPSEQ, dot-bracket, extended dot-bracket, the ORDERED list of all dot-brackets (BpSeq and "
    "Mapping2D3D, with and without gap detection), element descriptions, annotator CLI stdout/JSON/CSV, the stdout of clashfinder and "
    "motif_extractor, the files written by splitter and the stdout/JSON/CSV of the external-tool adapter on a listing derived from the same input, write_pdb "
    "and write_cif text of the atom table, both removals. Oracle (metamorphic): all digests equal across "
    "interpreters, seeds and passes. Additionally SIBLING inputs - the same molecule with two sets of coordinates, as NMR models or MD "
    "frames are - are processed in one interpreter in both orders: every artefact of an input must be the same whatever "
    "was processed before it. Non-trivial: an input whose all-dot-brackets list has >=2 members, or a 3D "
    "file with >=1 base pair, stacking and BPh/BR contact; distinct = distinct input."
)
ASSUMPTIONS = [
    "hash seeds are sampled (4 quick / 8 thorough), not enumerated; 'random' is replaced by a VERIF_SEED-derived value so that a run stays reproducible",
    "PDB text is compared only for tables that fit PDB limits",
    "trusted: CPython's PYTHONHASHSEED mechanism, hashlib",
]

QUICK_FILES = ["1A1T_1_B.cif", "1DFU_1_M-N.cif", "1E7K_1_C.cif", "1HMH_1_E.cif", "4WTI_1_T-P.cif", "184D.cif",
               "488d.pdb", "1ATO.pdb", "6INQ.cif", "8btk_B7.cif", "6FC9.cif", "1JJP.cif",
               "q-ugg-5k-salt_400-500ns_frame1065.pdb"]


def hash_seeds(tier, seed):
    derived = (seed * 2654435761 + 97) % (2 ** 32)
    if tier == "quick":
        return [0, 1, 2, derived]
    return [0, 1, 2, 3, 42, 12345, 2 ** 32 - 1, derived]


def run_child(spec, hseed, tag, full=None):
    os.makedirs(WORK_DIR, exist_ok=True)
    wd = os.path.join(WORK_DIR, f"c14_{os.getpid()}_{tag}_{hseed}")
    os.makedirs(wd, exist_ok=True)
    spec = dict(spec, workdir=wd)
    sp = os.path.join(wd, "spec.json")
    op = os.path.join(wd, "out.json")
    json.dump(spec, open(sp, "w"))
    env = dict(os.environ)
    env["PYTHONHASHSEED"] = str(hseed)
    env["PYTHONPATH"] = os.pathsep.join([os.path.join(REPO, "src"), VERIF])
    env["LOGLEVEL"] = "ERROR"
    cmd = ["/venv/bin/python", os.path.join(VERIF, "rnaverif", "c14_child.py"), sp, op]
    if full:
        cmd += ["--full", full]
    try:
        p = subprocess.run(cmd, env=env, capture_output=True, text=True, cwd=wd)
        if p.returncode != 0 or not os.path.exists(op):
            return {"__child_error__": (p.stderr or p.stdout)[-600:]}
        return json.load(open(op))
    finally:
        shutil.rmtree(wd, ignore_errors=True)


def compare(inputs, tier, seed, tag, seeds=None, parallel=False):
    """returns {input_id: [Discrepancy...]}, meta by input"""
    seeds = seeds or hash_seeds(tier, seed)
    outs = {}
    if parallel:
        from concurrent.futures import ThreadPoolExecutor

        with ThreadPoolExecutor(len(seeds)) as ex:
            futs = {hs: ex.submit(run_child, {"inputs": inputs}, hs, f"{tag}h{k}") for k, hs in enumerate(seeds)}
            outs = {hs: f.result() for hs, f in futs.items()}
    else:
        for hs in seeds:
            outs[hs] = run_child({"inputs": inputs}, hs, tag)
    result = {inp["id"]: [] for inp in inputs}
    meta = {}
    for hs, o in outs.items():
        if "__child_error__" in o:
            # the whole interpreter died: attribute to every input (import error etc.)
            for inp in inputs:
                result[inp["id"]].append(D("C14:child-crashed", f"PYTHONHASHSEED={hs}: {o['__child_error__'][-300:]}"))
            return result, meta
    base_seed = seeds[0]
    for inp in inputs:
        iid = inp["id"]
        recs = {hs: outs[hs].get(iid, {}) for hs in seeds}
        errs = {hs: r.get("error") for hs, r in recs.items() if r.get("error")}
        if errs:
            hs, e = sorted(errs.items())[0]
            name = e.split(":")[0]
            if len(errs) == len(seeds):
                result[iid].append(D(f"C14:exception:{name}", f"every interpreter raised {e}"))
            else:
                result[iid].append(D(f"C14:exception-depends-on-hash-seed:{name}", f"PYTHONHASHSEED={hs} raised {e}, others did not"))
            continue
        meta[iid] = recs[base_seed].get("meta", {})
        ref = recs[base_seed]["passes"][0]
        for hs in seeds:
            ps = recs[hs]["passes"]
            for art in sorted(ref):
                if len(ps) > 1 and ps[0].get(art) != ps[1].get(art):
                    result[iid].append(D(f"C14:{art}:differs-between-repeated-calls", f"PYTHONHASHSEED={hs}: second in-process pass differs"))
                if ps[0].get(art) != ref.get(art):
                    result[iid].append(D(f"C14:{art}:depends-on-hash-seed", f"PYTHONHASHSEED={base_seed} vs {hs} give different {art}"))
        # one discrepancy per signature
        seen, uniq = set(), []
        for d in result[iid]:
            if d.sig not in seen:
                seen.add(d.sig)
                uniq.append(d)
        result[iid] = uniq
    return result, meta


def explain(inp, art, seeds):
    """first differing line of the artefact between two seeds (for the replay file / message)"""
    a = run_child({"inputs": [inp]}, seeds[0], "ex", full=art).get(inp["id"], {}).get("full", "")
    b = run_child({"inputs": [inp]}, seeds[1], "ex", full=art).get(inp["id"], {}).get("full", "")
    for k, (x, y) in enumerate(zip(a.splitlines(), b.splitlines())):
        if x != y:
            return f"line {k + 1}: {x[:120]!r} vs {y[:120]!r}"
    return f"lengths {len(a)} vs {len(b)}"


def collect_structures(n, seed):
    import hypothesis
    from hypothesis import HealthCheck, Phase, given, settings

    got = []

    def multi_component(s):
        st, g, comps = ssref.describe(s[0], s[1])
        return len(comps) >= 2 and all(len(c) <= 5 for c in comps)

    strat = ssref.st_structures(max_abstract=8, max_stem=3, max_gap=2, min_abstract=4).filter(multi_component)

    @hypothesis.seed(seed)
    @settings(max_examples=n, database=None, deadline=None, suppress_health_check=list(HealthCheck), phases=[Phase.generate])
    @given(strat)
    def collect(s):
        got.append(s)

    collect()
    # distinct structures only
    uniq, seen = [], set()
    for s in got:
        if s not in seen:
            seen.add(s)
            uniq.append(s)
    return uniq


def collect_mapping_cases(n, seed):
    import hypothesis
    from hypothesis import HealthCheck, Phase, given, settings
    from rnaverif.props import c06

    got = []

    @hypothesis.seed(seed)
    @settings(max_examples=n, database=None, deadline=None, suppress_health_check=list(HealthCheck), phases=[Phase.generate])
    @given(c06.st_cases(["1HMH_1_E.cif", "6INQ.cif", "1DFU_1_M-N.cif", "1E7K_1_C.cif", "184D.cif"]))
    def collect(c):
        got.append(c)

    collect()
    return got + canonical_conflict_cases(seed)


def canonical_conflict_cases(seed):
    """pair lists in which one G is given two (three) canonical partners of one class - the conflict whose resolution
    must not depend on anything but the list: constructed from the letters of corpus structures, in both entry orders"""
    from rnaverif import corpus

    out = []
    for k, fn in enumerate(["1E7K_1_C.cif", "1DFU_1_M-N.cif", "1HMH_1_E.cif"]):
        if not os.path.exists(os.path.join(REPO, "tests", fn)):
            continue
        nts = [r for r in corpus.structure(fn).residues if r.is_nucleotide]
        gs = [i for i, r in enumerate(nts) if r.one_letter_name == "G"]
        cs = [i for i, r in enumerate(nts) if r.one_letter_name in ("C", "U")]
        if not gs or len(cs) < 2:
            continue
        h = gs[(seed + k) % len(gs)]
        partners = [cs[(seed + k + j * 3) % len(cs)] for j in range(3)]
        partners = [p for i, p in enumerate(partners) if p not in partners[:i]]
        entries = [{"r1": h, "r2": p, "lw": "cWW", "dup": None} for p in partners]
        for order in (entries, entries[::-1]):
            out.append({"file": fn, "entries": [dict(e) for e in order], "find_gaps": False, "via_adapter": bool((seed + k) % 2), "saenger": True, "naming": None})
    return out


VARIANT_FILES = ["1ATO.pdb", "1HMH_1_E.cif", "1E7K_1_C.cif", "1A1T_1_B.cif", "4WTI_1_T-P.cif", "1DFU_1_M-N.cif"]
ODD_RESNAMES = ["XYZ", "PYO", "0MX", "B8H", "UNK", "6MZ", "M2G", "PSU", "5MC", "H2U", "1MA", "N"]
DROP_ATOMS = ["N4", "O4", "N6", "O6", "N2", "N7", "C8", "N9", "O2", "C5", "C6", "C2", "N3", "C4", "N1", "C1'", "O2'"]


def collect_variants(n, seed):
    """corpus structures re-emitted by the harness with drawn residues renamed to non-standard names and thinned of
    drawn base atoms: inputs on which the library has to GUESS (one-letter names, missing-atom fallbacks) and where
    ties between equally good guesses occur"""
    import hypothesis
    from hypothesis import HealthCheck, Phase, given, settings, strategies as st
    from rnaverif import atomtab, corpus
    from rnaverif.props import c05

    files = [f for f in VARIANT_FILES if os.path.exists(os.path.join(REPO, "tests", f))]
    tables = {}
    for f in files:
        t = c05.table_from_structure(corpus.structure(f))
        if t:
            tables[f] = t
    if not tables:
        raise HarnessError("no corpus file can be re-emitted for C14 variants")
    mod = st.tuples(st.integers(0, 400), st.sampled_from(ODD_RESNAMES), st.lists(st.sampled_from(DROP_ATOMS), max_size=5, unique=True))
    # long_chains (mmCIF only): author chain names of two characters, as chains cut from large assemblies have - such
    # a table does not fit the PDB limits as it is and has to be renamed on its way to a PDB file
    strat = st.fixed_dictionaries({"file": st.sampled_from(sorted(tables)), "ext": st.sampled_from(["pdb", "cif"]),
                                   "mods": st.lists(mod, min_size=1, max_size=5), "long_chains": st.booleans(),
                                   # numbering that restarts inside a chain (two fragments under one chain id, as modelling
                                   # and MD pipelines write them): two different residues then share chain, number and code
                                   "restart_numbering": st.sampled_from([False, False, True]),
                                   # mmCIF only: optional atom_site items left out (minimal files of modelling tools)
                                   "drop_items": st.lists(st.sampled_from(["label_alt_id", "pdbx_PDB_ins_code", "pdbx_formal_charge", "type_symbol", "occupancy", "B_iso_or_equiv"]),
                                                          max_size=5, unique=True)})
    got = []

    @hypothesis.seed(seed)
    @settings(max_examples=n, database=None, deadline=None, suppress_health_check=list(HealthCheck), phases=[Phase.generate])
    @given(strat)
    def collect(c):
        got.append(c)

    collect()
    out = []
    for c in got:
        atoms = [dict(a) for a in tables[c["file"]]]
        order = []
        for a in atoms:
            k = (a["chain"], a["resseq"], a["icode"])
            if k not in order:
                order.append(k)
        for idx, resname, drop in c["mods"]:
            key = order[idx % len(order)]
            atoms = [a for a in atoms if not ((a["chain"], a["resseq"], a["icode"]) == key and a["name"] in drop)]
            for a in atoms:
                if (a["chain"], a["resseq"], a["icode"]) == key:
                    a["resname"] = resname
        for k, a in enumerate(atoms):
            a["serial"] = k + 1
        if c.get("restart_numbering"):
            seen, half = [], {}
            for a in atoms:
                k = (a["chain"], a["resseq"], a["icode"])
                if k not in seen:
                    seen.append(k)
            by_chain = {}
            for k in seen:
                by_chain.setdefault(k[0], []).append(k)
            for ch, ks in by_chain.items():
                cut = len(ks) // 2
                if cut >= 1 and len(ks) - cut >= 1:
                    shift = ks[cut][1] - ks[0][1]
                    for k in ks[cut:]:
                        half[k] = shift
            for a in atoms:
                a["resseq"] -= half.get((a["chain"], a["resseq"], a["icode"]), 0)
        if c.get("long_chains") and c["ext"] == "cif":
            for a in atoms:
                a["chain"] = a["chain"] + a["chain"].lower() + "x"
        drop = [d for d in c.get("drop_items", []) if not (d == "pdbx_PDB_ins_code" and any(a["icode"] for a in atoms))]
        text = atomtab.emit_pdb(atoms) if c["ext"] == "pdb" else atomtab.emit_cif(atoms, dialect={"drop": drop} if drop else None)
        out.append((c, text))
    return out


SIBLING_FILES = ["1A1T_1_B.cif", "1E7K_1_C.cif", "1HMH_1_E.cif", "1DFU_1_M-N.cif", "1ATO.pdb", "4WTI_1_T-P.cif"]


def sibling_inputs(fn, k):
    """the same molecule twice with different coordinates (as two NMR models, two MD frames or two entries of one
    RNA are): the corpus structure re-emitted as it is, and re-emitted after a gentle shear + rigid motion that keeps
    identities and, by and large, the secondary structure"""
    import numpy as np
    from rnaverif import atomtab, corpus, gen3d
    from rnaverif.props import c05

    t = c05.table_from_structure(corpus.structure(fn))
    if not t:
        return None
    P = np.array([[a["x"], a["y"], a["z"]] for a in t])
    c = P.mean(axis=0)
    S = np.array([[1.0, 0.03, 0.0], [0.0, 1.0, 0.02], [0.0, 0.0, 1.0]])
    R = np.array(gen3d.AXIS_ROTATIONS[(5 + k) % 24])
    Q = (P - c) @ S.T @ R.T + c + np.array([3.0, -2.0, 1.0])
    t2 = [dict(a, x=round(float(q[0]), 3), y=round(float(q[1]), 3), z=round(float(q[2]), 3)) for a, q in zip(t, Q)]
    if Q.min() < -999 or Q.max() > 9999:
        return None
    ext = "pdb" if k % 2 else "cif"
    emit = atomtab.emit_pdb if ext == "pdb" else atomtab.emit_cif
    return [{"id": f"sib_{fn}_{k}_a", "kind": "filetext", "ext": ext, "text": emit(t)},
            {"id": f"sib_{fn}_{k}_b", "kind": "filetext", "ext": ext, "text": emit(t2)}]


def compare_orders(inputs, tag):
    """the same inputs processed in one interpreter in two different orders: every artefact of an input must be the
    same whatever was processed before it"""
    fwd = run_child({"inputs": inputs}, 0, tag + "f")
    rev = run_child({"inputs": list(reversed(inputs))}, 0, tag + "r")
    result = {inp["id"]: [] for inp in inputs}
    meta = {}
    for o in (fwd, rev):
        if "__child_error__" in o:
            for inp in inputs:
                result[inp["id"]].append(D("C14:child-crashed", o["__child_error__"][-300:]))
            return result, meta
    for inp in inputs:
        iid = inp["id"]
        a, b = fwd.get(iid, {}), rev.get(iid, {})
        if a.get("error") or b.get("error"):
            if a.get("error") != b.get("error"):
                result[iid].append(D("C14:exception-depends-on-processing-order", f"{a.get('error')} vs {b.get('error')}"))
            continue
        meta[iid] = a.get("meta", {})
        pa, pb = a["passes"][0], b["passes"][0]
        for art in sorted(pa):
            if pa.get(art) != pb.get(art):
                result[iid].append(D(f"C14:{art}:depends-on-what-was-processed-before", f"{iid}: {art} differs when the sibling input is processed first"))
    return result, meta


def plan(tier, seed):
    specs = []
    if tier == "quick":
        files = [f for f in QUICK_FILES if os.path.exists(os.path.join(REPO, "tests", f))]
        nstruct, batch = 40, 10
    else:
        files = sorted(f for f in os.listdir(os.path.join(REPO, "tests"))
                       if f.endswith((".cif", ".pdb")) and os.path.getsize(os.path.join(REPO, "tests", f)) > 0)
        nstruct, batch = 400, 25
    for f in files:
        specs.append({"kind": "file", "file": f, "tier": tier, "seed": seed})
    for k in range(nstruct // batch):
        specs.append({"kind": "bpseq", "n": batch, "gen_seed": seed * 1000 + k, "tier": tier, "seed": seed})
    H, T = [[0, 2], [1, 3]], [[0, 3], [1, 4], [2, 5]]
    specs.append({"kind": "bpseq", "many": [[H, 0, 10], [T, 0, 4], [H, 1, 11]], "gen_seed": seed * 1000 + 900, "tier": tier, "seed": seed})
    if tier != "quick":
        specs.append({"kind": "bpseq", "many": [[H, 0, 12], [T, 1, 5], [H, 0, 13]], "gen_seed": seed * 1000 + 901, "tier": tier, "seed": seed})
    # ONE conflict component of nine mutually crossing stems: 9! = 362 880 orderings of a single group, each giving a
    # notation of its own (a limit, a sample or a cut inside the per-group enumeration acts here, not on many small groups)
    specs.append({"kind": "bpseq", "ladders": [[9, 1, 0]], "gen_seed": seed * 1000 + 902, "tier": tier, "seed": seed})
    if tier != "quick":
        specs.append({"kind": "bpseq", "ladders": [[9, 2, 1]], "gen_seed": seed * 1000 + 903, "tier": tier, "seed": seed})
    nmap, mbatch = (24, 12) if tier == "quick" else (400, 25)
    for k in range(nmap // mbatch):
        specs.append({"kind": "mapping", "n": mbatch, "gen_seed": seed * 1000 + 500 + k, "tier": tier, "seed": seed})
    for k, fn in enumerate(SIBLING_FILES if tier != "quick" else SIBLING_FILES[:4]):
        specs.append({"kind": "siblings", "file": fn, "k": k + seed, "tier": tier, "seed": seed})
    nvar, vbatch = (24, 6) if tier == "quick" else (480, 20)
    for k in range(nvar // vbatch):
        specs.append({"kind": "variant", "n": vbatch, "gen_seed": seed * 1000 + 700 + k, "tier": tier, "seed": seed})
    return specs


def run_shard(spec) -> ShardResult:
    res = ShardResult()
    known = set(known_signatures(PROP_ID))
    tier, seed = spec["tier"], spec["seed"]
    if spec["kind"] == "siblings":
        inputs = sibling_inputs(spec["file"], spec["k"]) if os.path.exists(os.path.join(REPO, "tests", spec["file"])) else None
        if not inputs:
            res.exhaustive = False
            return res
        result, meta = compare_orders(inputs, "sib" + spec["file"].replace(".", "_"))
        for inp in inputs:
            m = meta.get(inp["id"], {})
            res.note_case({"siblings-of": spec["file"], "id": inp["id"], **m}, m.get("n_bp", 0) >= 1, ["same-molecule-other-coordinates-in-one-process"])
            for d in result[inp["id"]]:
                if d.sig in known:
                    res.known_hits[d.sig] += 1
                elif not any(f["sig"] == d.sig for f in res.failures):
                    res.failures.append({"sig": d.sig, "what": d.what, "case": {"siblings": {"file": spec["file"], "k": spec["k"]}}})
        res.extra["interpreters_started"] = 2
        res.exhaustive = False
        return res
    if spec["kind"] == "file":
        inp = {"id": spec["file"], "kind": "file", "path": os.path.join(REPO, "tests", spec["file"])}
        inputs = [inp]
        tag = "f" + spec["file"].replace(".", "_")
    elif spec["kind"] == "variant":
        vs = collect_variants(spec["n"], spec["gen_seed"])
        inputs = [{"id": f"v{spec['gen_seed']}_{k}", "kind": "filetext", "ext": c["ext"], "text": text, "variant": c} for k, (c, text) in enumerate(vs)]
        tag = f"v{spec['gen_seed']}"
    elif spec["kind"] == "mapping":
        cases = collect_mapping_cases(spec["n"], spec["gen_seed"])
        inputs = [{"id": f"m{spec['gen_seed']}_{k}", "kind": "mapping", "case": c} for k, c in enumerate(cases)]
        tag = f"m{spec['gen_seed']}"
    else:
        if spec.get("many"):
            # structures with MORE THAN 1000 admissible notations (independent pseudoknots multiply them): size limits,
            # truncation and batching inside the enumeration would act here and nowhere else
            structs = [ssref.repeated_motif([tuple(c) for c in chords], hp, copies) for chords, hp, copies in spec["many"]]
        elif spec.get("ladders"):
            structs = [ssref.ladder(*a)[:2] for a in spec["ladders"]]
        else:
            structs = collect_structures(spec["n"], spec["gen_seed"])
        inputs = [{"id": f"s{spec['gen_seed']}_{k}", "kind": "bpseq", "text": ssref.bpseq_text(s[0], s[1]),
                   "seq": s[0], "pairs": [list(p) for p in s[1]]} for k, s in enumerate(structs)]
        tag = f"b{spec['gen_seed']}"
    seeds = hash_seeds(tier, seed)
    if spec.get("ladders"):
        # a quarter of a minute per interpreter: two (quick) or four interpreters, side by side
        seeds = [seeds[0], seeds[-1]] if tier == "quick" else [seeds[0], seeds[1], seeds[4], seeds[-1]]
    result, meta = compare(inputs, tier, seed, tag, seeds=seeds, parallel=bool(spec.get("ladders")))
    for inp in inputs:
        m = meta.get(inp["id"], {})
        if inp["kind"] == "file":
            nt = m.get("n_all", 0) >= 2 or (m.get("n_bp", 0) >= 1 and m.get("n_st", 0) >= 1 and m.get("n_bphbr", 0) >= 1)
            labs = ["file"] + (["all_dot_brackets>=2"] if m.get("n_all", 0) >= 2 else [])
            cj = {"file": spec["file"], **m}
        elif inp["kind"] == "filetext":
            nt = m.get("n_bp", 0) >= 1 and m.get("n_st", 0) >= 1
            labs = ["corpus-variant-with-nonstandard-residues", "variant-" + inp["ext"]]
            cj = {"variant": inp["variant"], **m}
        elif inp["kind"] == "mapping":
            ents = inp["case"].get("entries", [])
            nt = len(ents) >= 3
            labs = ["mapping-over-drawn-pair-list"]
            cj = {"mapping": {k: v for k, v in inp["case"].items() if k != "entries"}, "n_entries": len(ents)}
        else:
            nt = m.get("n_all", 0) >= 2
            labs = ["bpseq"] + (["all_dot_brackets>=2"] if nt else []) + (["all_dot_brackets>1000"] if m.get("n_all", 0) > 1000 else []) + (["one-group-of-9-crossing-stems"] if spec.get("ladders") else [])
            cj = {"seq": inp["seq"], "pairs": inp["pairs"], **m}
        res.note_case(cj, nt, labs)
        for d in result[inp["id"]]:
            if d.sig in known:
                res.known_hits[d.sig] += 1
                continue
            if any(f["sig"] == d.sig for f in res.failures):
                continue
            what = d.what
            if ":depends-on-hash-seed" in d.sig and not d.sig.startswith("C14:exception"):
                art = d.sig.split(":")[1]
                other = int(what.split(" vs ")[1].split()[0])
                try:
                    what += "; " + explain({k: v for k, v in inp.items() if k in ("id", "kind", "path", "text", "case", "ext")}, art, [seeds[0], other])
                except Exception:
                    pass
            case = {"input": {k: v for k, v in inp.items() if k in ("id", "kind", "text", "seq", "pairs", "case", "ext", "variant")}, "seeds": seeds}
            if inp["kind"] == "file":
                case["input"]["file"] = spec["file"]
            res.failures.append({"sig": d.sig, "what": what, "case": case})
    res.extra["interpreters_started"] = len(seeds)
    res.extra["artefact_comparisons"] = len(inputs) * len(seeds) * 2
    res.exhaustive = False
    return res


def replay(case):
    if "siblings" in case:
        inputs = sibling_inputs(case["siblings"]["file"], case["siblings"]["k"])
        result, _ = compare_orders(inputs, "rp")
        return [d for v in result.values() for d in v]
    inp = dict(case["input"])
    if inp["kind"] == "file":
        inp["path"] = os.path.join(REPO, "tests", inp["file"])
    result, _ = compare([inp], "quick", 1, "rp", seeds=case.get("seeds") or [0, 1, 2, 3])
    return result[inp["id"]]
