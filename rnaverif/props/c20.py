"""C20 - mmCIF item editing changes only its target; CLI output equals library result."""

from __future__ import annotations

import contextlib
import io
import os
import sys

from rnaverif import atomtab, corpus
from rnaverif.runner import D, HarnessError, ShardResult, WORK_DIR, check_case, run_hypothesis

PROP_ID = "C20"
LEVEL = "exploration"
RULE = (
    "Hypothesis mmCIF documents (1-5 categories, each a key-value set or a loop of 1-6 rows over 2-6 items; values: "
    "plain tokens, numbers, quoted multi-word strings, strings containing ' or \", semicolon text blocks, '?' and "
    "'.') written by the harness, plus corpus mmCIF files; (category, source item, target item) and (category, item, "
    "alphabet) drawn among present and absent names, including a new target item and the default arguments. Oracle: "
    "input and output are parsed with the harness's own CIF tokenizer: every other category identical (items, rows, "
    "row order), every other item of the edited category identical, target == source column (copy) or image of the "
    "returned mapping (replace), mapping injective, first-seen ordered and equal to the reference mapping; absent "
    "category or source item => output byte-identical to the input and mapping {}. CLI: transformer.main() (to a separate output file and in place, output path == input path) on a file "
    "copy of the document: output file == library return value for the file's content. Each document is first passed "
    "through a plain IoAdapterPy read/write (no rnapolis); documents the mmcif package itself does not preserve are "
    "discarded and counted. Non-trivial: document with >=3 categories, a quoted multi-word value and a '?'/'.' in the "
    "edited category; distinct = distinct (document, operation)."
)
ASSUMPTIONS = [
    "substitution alphabets have distinct characters; one with fewer symbols than the item has distinct values admits no mapping of the stated kind, so a refusal (the library raises IndexError) is accepted there, and an answer is accepted only if it is an injective mapping that starts with the alphabet in first-seen order, is returned and is applied",
    "category order inside the file is not compared, only category content",
    "documents that a plain IoAdapterPy read/write does not preserve are outside the check (limitation of the mmcif package, not of rnapolis)",
    "trusted: the harness CIF tokenizer (cross-checked against IoAdapterPy on the corpus)",
]


def emit_doc(doc, extra_blocks=None, layout=None):
    """layout: None (item names at the start of their lines, one per line), "indented" (names preceded by blanks, as
    CIF dictionaries and some writers lay them out), "one-line" (loop_ and the item names share a line), "crlf-free
    tabs" (names preceded by a tab) - CIF is a token stream, the position of a name on its line means nothing"""
    text = _emit_block(doc, "verif", layout)
    for k, blk in enumerate(extra_blocks or []):
        text += _emit_block(blk, f"more{k + 1}", layout)
    return text


def _emit_block(doc, name, layout=None):
    out = [f"data_{name}", "#"]
    lead = {"indented": "  ", "tabs": "\t"}.get(layout, "")
    for cat in doc:
        name, items, rows, loop = cat["name"], cat["items"], cat["rows"], cat["loop"]

        def tok(v):
            if v in ("?", "."):
                return v
            if "\n" in v:
                return "\n;" + v + "\n;\n"
            q = atomtab.cif_quote(v)
            if q is None:
                return "\n;" + v + "\n;\n"
            return q

        if loop and layout == "one-line":
            out.append("loop_ " + " ".join(f"_{name}.{it}" for it in items))
        elif loop:
            out.append("loop_")
            for it in items:
                out.append(f"{lead}_{name}.{it}")
        if loop:
            for r in rows:
                line = " ".join(tok(v) for v in r)
                out.append(line.replace(" \n", "\n").replace("\n ", "\n"))
        else:
            for it, v in zip(items, rows[0]):
                t = tok(v)
                out.append(f"{lead}_{name}.{it} {t}".replace(" \n", "\n"))
        out.append("#")
    text = "\n".join(out) + "\n"
    while "\n\n" in text:
        text = text.replace("\n\n", "\n")
    return text


def model_of_output(tag, text, out):
    """model of a text the library RETURNED: if the harness tokenizer cannot read it, that is a finding about the
    output (not a harness failure); returns None then"""
    try:
        return model_of(text)
    except atomtab.CifError as e:
        out.append(D(f"C20:{tag}:output-is-not-mmcif", f"the returned text cannot be tokenized: {str(e)[:120]}; it starts {text[:40]!r}"))
        return None


def model_of(text):
    """{category: (items, rows)} via the harness tokenizer"""
    cats = {}
    for c, items, rows in atomtab.parse_cif(text, all_blocks=True):
        cats[c] = (list(items), [list(r) for r in rows])
    return cats


def survives_mmcif_package(text):
    from mmcif.io.IoAdapterPy import IoAdapterPy

    os.makedirs(WORK_DIR, exist_ok=True)
    p = os.path.join(WORK_DIR, f"c20_{os.getpid()}_self.cif")
    q = p + ".out"
    with open(p, "w") as f:
        f.write(text)
    try:
        ad = IoAdapterPy()
        data = ad.readFile(p)
        if not data:
            return False
        ad.writeFile(q, data)
        with open(q) as f:
            back = f.read()
        return model_of(back) == model_of(text)
    except Exception:
        return False
    finally:
        for x in (p, q):
            with contextlib.suppress(OSError):
                os.remove(x)


def compare_edit(tag, before, after, category, target, expected_column, out):
    if set(before) != set(after):
        out.append(D(f"C20:{tag}:category-set-changed", f"lost {sorted(set(before) - set(after))} gained {sorted(set(after) - set(before))}"))
        return
    for c in before:
        if c == category:
            continue
        if before[c] != after[c]:
            out.append(D(f"C20:{tag}:other-category-changed", f"category {c} differs after editing {category}.{target}"))
            return
    bi, br = before[category]
    ai, ar = after[category]
    if len(br) != len(ar):
        out.append(D(f"C20:{tag}:row-count-changed", f"{len(br)} -> {len(ar)} rows in {category}"))
        return
    want_items = bi if target in bi else bi + [target]
    if sorted(ai) != sorted(want_items):
        out.append(D(f"C20:{tag}:item-set-changed", f"items {ai} instead of {want_items}"))
        return
    for it in bi:
        if it == target:
            continue
        col_b = [r[bi.index(it)] for r in br]
        col_a = [r[ai.index(it)] for r in ar]
        if col_b != col_a:
            k = next(i for i, (x, y) in enumerate(zip(col_b, col_a)) if x != y)
            out.append(D(f"C20:{tag}:other-item-changed", f"{category}.{it} row {k}: {col_b[k]!r} -> {col_a[k]!r}"))
            return
    col_t = [r[ai.index(target)] for r in ar]
    if col_t != expected_column:
        k = next((i for i, (x, y) in enumerate(zip(col_t, expected_column)) if x != y), 0)
        out.append(D(f"C20:{tag}:target-wrong", f"{category}.{target} row {k}: {col_t[k]!r}, expected {expected_column[k]!r}"))


def run_cli(argv):
    import rnapolis.transformer as tr

    old = sys.argv
    buf = io.StringIO()
    try:
        sys.argv = ["transformer"] + argv
        with contextlib.redirect_stdout(buf):
            tr.main()
    finally:
        sys.argv = old
    return buf.getvalue()


def oracle(case):
    from rnapolis.transformer import copy_from_to, replace_value

    if case.get("file"):
        with corpus.open_corpus(case["file"]) as f:
            text = f.read()
    else:
        text = emit_doc(case["doc"], case.get("extra_blocks"), case.get("layout"))
    info = case.setdefault("_info", {})
    if not survives_mmcif_package(text):
        # e.g. 6g90_1.cif carries a category written as '__chem_comp' that IoAdapterPy itself does not preserve
        info["discarded"] = True
        return []
    before = model_of(text)
    op = case["op"]
    category = op["category"]
    out = []
    os.makedirs(WORK_DIR, exist_ok=True)
    pin = os.path.join(WORK_DIR, f"c20_{os.getpid()}_in.cif")
    pout = os.path.join(WORK_DIR, f"c20_{os.getpid()}_out.cif")
    with open(pin, "w") as f:
        f.write(text)
    try:
        if op["kind"] == "copy":
            src, dst = op["source"], op["target"]
            if op.get("defaults"):
                result = copy_from_to(text)
                category, src, dst = "atom_site", "label_asym_id", "auth_asym_id"
            else:
                result = copy_from_to(text, category, src, dst)
            present = category in before and src in before[category][0]
            info["present"] = present
            if not isinstance(result, str):
                return [D("C20:copy:not-a-string", f"copy_from_to returned {type(result).__name__}")]
            if not present:
                if result != text:
                    out.append(D("C20:copy:absent-target-file-changed", f"{category}.{src} is absent but the returned text differs from the input"))
            else:
                bi, br = before[category]
                exp_col = [r[bi.index(src)] for r in br]
                after = model_of_output("copy", result, out)
                if after is not None:
                    compare_edit("copy", before, after, category, dst, exp_col, out)
            # CLI
            argv = [pin, pout, "--copy-from", src, "--copy-to", dst] + (["--category", category] if not op.get("defaults") else [])
            lib = result
        else:
            col, alphabet = op["item"], op["alphabet"]
            if op.get("defaults"):
                result = replace_value(text)
                category, col = "atom_site", "auth_asym_id"
                import string
                alphabet = "".join(c for c in string.printable if c not in string.whitespace)
            else:
                try:
                    result = replace_value(text, category, col, alphabet)
                except Exception:
                    # an alphabet with fewer symbols than the item has distinct values admits no injective mapping:
                    # refusing the request is the one acceptable answer that is not such a mapping
                    present = category in before and col in before[category][0]
                    if present:
                        bi, br = before[category]
                        if len({r[bi.index(col)] for r in br}) > len(alphabet):
                            info["present"] = True
                            info["rejected_short_alphabet"] = True
                            return out
                    raise
            if not (isinstance(result, tuple) and len(result) == 2):
                return [D("C20:replace:not-a-pair", f"replace_value returned {type(result).__name__}")]
            new_text, mapping = result
            present = category in before and col in before[category][0]
            info["present"] = present
            if not present:
                if new_text != text or mapping != {}:
                    out.append(D("C20:replace:absent-target-file-changed", f"{category}.{col} is absent but text/mapping changed ({mapping})"))
            else:
                bi, br = before[category]
                values = [r[bi.index(col)] for r in br]
                ref = {}
                for v in values:
                    if v not in ref:
                        # beyond the end of the alphabet the statement only demands an injective mapping that is
                        # returned and applied: whatever the library returned for that value is taken as given
                        ref[v] = alphabet[len(ref)] if len(ref) < len(alphabet) else dict(mapping).get(v)
                if len(ref) > len(alphabet):
                    info["accepted_short_alphabet"] = True
                if dict(mapping) != ref:
                    out.append(D("C20:replace:mapping-wrong", f"returned mapping {dict(mapping)} != first-seen mapping {ref}"))
                elif list(mapping.keys()) != list(ref.keys()):
                    out.append(D("C20:replace:mapping-order", "returned mapping is not in first-seen order"))
                if len(set(mapping.values())) != len(mapping):
                    out.append(D("C20:replace:mapping-not-injective", f"{dict(mapping)}"))
                after = model_of_output("replace", new_text, out)
                if after is not None:
                    compare_edit("replace", before, after, category, col, [ref[v] for v in values], out)
            argv = [pin, pout, "--replace", col, "--values", alphabet] + (["--category", category] if not op.get("defaults") else [])
            lib = new_text
        # command-line tool == library
        if os.path.exists(pout):
            os.remove(pout)
        try:
            run_cli(argv)
            if not os.path.exists(pout):
                out.append(D("C20:cli:no-output-file", f"transformer {' '.join(argv[2:])} wrote nothing"))
            else:
                with open(pout) as f:
                    got = f.read()
                if got != lib:
                    if got.strip() == pin:
                        out.append(D("C20:cli:writes-input-path", "the output file contains the input PATH instead of the transformed content"))
                    else:
                        out.append(D("C20:cli:differs-from-library", f"output of the tool ({len(got)} chars) != library result ({len(lib)} chars) for {argv[2:]}"))
            # the same call with the output path equal to the input path (editing a file in place)
            run_cli([pin, pin] + argv[2:])
            with open(pin) as f:
                got = f.read()
            if got != lib:
                out.append(D("C20:cli:in-place-differs-from-library", f"with output path == input path the file holds {len(got)} chars, the library result has {len(lib)} for {argv[2:]}"))
        except SystemExit as e:
            out.append(D("C20:cli:exit", f"transformer exited with {e.code} for {argv[2:]}"))
        except Exception as e:
            from rnaverif.runner import sut_location
            out.append(D(f"C20:cli:raises:{type(e).__name__}@{sut_location(e.__traceback__)}", f"{type(e).__name__}: {str(e)[:160]} for {argv[2:]}"))
    finally:
        for x in (pin, pout):
            with contextlib.suppress(OSError):
                os.remove(x)
    return out


def classify(case):
    info = case.get("_info", {})
    labs = [case["op"]["kind"]]
    if info.get("discarded"):
        return False, labs + ["discarded-by-mmcif-self-check"]
    if case.get("file"):
        return bool(info.get("present")), labs + ["corpus"] + (["present"] if info.get("present") else ["absent"])
    doc = case["doc"]
    labs.append("present" if info.get("present") else "absent")
    if info.get("rejected_short_alphabet"):
        labs.append("alphabet-too-short-refused")
    if info.get("accepted_short_alphabet"):
        labs.append("alphabet-too-short-answered")
    op = case["op"]
    cat = next((c for c in doc if c["name"] == op["category"]), None)
    multi = any(" " in v for c in doc for r in c["rows"] for v in r)
    nulls = cat is not None and any(v in ("?", ".") for r in cat["rows"] for v in r)
    if len(doc) >= 3:
        labs.append("categories>=3")
    if multi:
        labs.append("multi-word-value")
    if nulls:
        labs.append("null-in-edited-category")
    if op.get("target") and cat is not None and op["target"] not in cat["items"]:
        labs.append("new-target-item")
    if case.get("layout"):
        labs.append("layout-" + case["layout"])
    if case.get("extra_blocks"):
        labs.append("several-data-blocks")
        if any(c["name"] == op["category"] for b in case["extra_blocks"] for c in b):
            labs.append("edited-category-also-in-another-block")
    return len(doc) >= 3 and multi and nulls and bool(info.get("present")), labs


def to_json(case):
    return {k: v for k, v in case.items() if not k.startswith("_")}


def st_cases():
    from hypothesis import strategies as st

    ident = st.sampled_from(["id", "name", "type", "value", "asym_id", "seq_id", "comp_id", "details", "label_asym_id", "auth_asym_id", "x", "flag"])
    # (dictionary categories with capitals in their names included: pdbx_SG_project, pdbx_database_PDB_obs_spr exist)
    catname = st.sampled_from(["atom_site", "entity", "struct", "cell", "exptl", "citation", "pdbx_x", "entity_poly", "pdbx_SG_project", "pdbx_database_PDB_obs_spr", "Custom_Cat"])
    value = st.one_of(
        st.sampled_from(["A", "B", "AA", "1", "2", "-3.5", "ATOM", "?", ".", "?", "HOH", "A-2", "x1"]),
        st.sampled_from(["two words", "a b c", "O5'", "H5''", 'say "hi"', "it's", "N 1", "P 21 21 21", "multi\nline text", "inner line ends in blanks  \nsecond line", "tab at the end\t\nnext", "first\n   \nthird after a blank-only line", "semi;colon", "#hash", "_under", "data_x", "'q", '"q']),
        st.text(alphabet="ABCabc123", min_size=1, max_size=4),
        # values that differ from a plain one only by blanks at their edges (a quoted value with a blank next to the
        # quote, a blank-only value): distinct mmCIF values, so distinct keys of a renaming
        st.sampled_from([" A", "A ", " A ", " B", "B  ", " ", "  ", " 1", "AA "]),
    )

    @st.composite
    def build(draw):
        ncat = draw(st.integers(1, 5))
        names = draw(st.lists(catname, min_size=ncat, max_size=ncat, unique=True))
        doc = []
        for nm in names:
            nit = draw(st.integers(2, 6))
            items = draw(st.lists(ident, min_size=nit, max_size=nit, unique=True))
            loop = draw(st.booleans())
            nrows = draw(st.integers(1, 6)) if loop else 1
            rows = [[draw(value) for _ in items] for _ in range(nrows)]
            doc.append({"name": nm, "items": items, "rows": rows, "loop": loop})
        # further data blocks (the library edits the first one): their categories may carry the same names
        extra = []
        for _ in range(draw(st.sampled_from([0, 0, 0, 1, 2]))):
            blk = []
            bn = draw(st.lists(catname, min_size=1, max_size=3, unique=True))
            for nm in bn:
                same = [c for c in doc if c["name"] == nm]
                if same and draw(st.booleans()):
                    items = list(same[0]["items"])
                else:
                    nit = draw(st.integers(2, 5))
                    items = draw(st.lists(ident, min_size=nit, max_size=nit, unique=True))
                loop = draw(st.booleans())
                nrows = draw(st.integers(1, 4)) if loop else 1
                blk.append({"name": nm, "items": items, "rows": [[draw(value) for _ in items] for _ in range(nrows)], "loop": loop})
            extra.append(blk)
        kind = draw(st.sampled_from(["copy", "replace"]))
        cat = draw(st.sampled_from(doc))
        category = draw(st.sampled_from([cat["name"], cat["name"], cat["name"], "absent_cat"]))
        if kind == "copy":
            src = draw(st.sampled_from(cat["items"] + ["absent_item"]))
            dst = draw(st.sampled_from(cat["items"] + ["brand_new"]))
            op = {"kind": "copy", "category": category, "source": src, "target": dst, "defaults": draw(st.integers(0, 9)) == 0}
        else:
            col = draw(st.sampled_from(cat["items"] + ["absent_item"]))
            # mostly alphabets with room for every value; sometimes fewer symbols than the item has distinct values
            # (symbols that also occur as values included), where only a refusal or an injective mapping is right
            alphabet = draw(st.sampled_from(["ABCDEFGHIJKLMNOPQRSTUVWXYZ", "abcdefghij0123456789", "ZYXWVUTSRQPONMLK", "0123456789abcdefghijklmnopqrstuvwxyz",
                                             "AB", "BA1", "A", "12AB", "ab"]))
            op = {"kind": "replace", "category": category, "item": col, "alphabet": alphabet, "defaults": draw(st.integers(0, 9)) == 0}
        return {"doc": doc, "op": op, "extra_blocks": extra, "layout": draw(st.sampled_from([None, None, None, "indented", "one-line", "tabs"]))}

    return build()


CORPUS_OPS = [
    {"kind": "copy", "category": "atom_site", "source": "label_asym_id", "target": "auth_asym_id"},
    {"kind": "copy", "category": "atom_site", "source": "auth_seq_id", "target": "pdbx_new_item"},
    {"kind": "replace", "category": "atom_site", "item": "auth_asym_id", "alphabet": "ABCDEFGHIJKLMNOPQRSTUVWXYZabcdefghijklmnopqrstuvwxyz0123456789"},
    {"kind": "replace", "category": "entity", "item": "id", "alphabet": "ABCDEFGHIJKLMNOPQRSTUVWXYZabcdefghijklmnopqrstuvwxyz0123456789"},
    {"kind": "copy", "category": "no_such_category", "source": "a", "target": "b"},
    {"kind": "copy", "category": "atom_site", "source": "no_such_item", "target": "auth_asym_id"},
]


def plan(tier, seed):
    if tier == "quick":
        specs = [{"kind": "docs", "examples": 80, "seed": seed * 1000 + k} for k in range(16)]
        specs += [{"kind": "corpus", "files": [f]} for f in ["1HMH_1_E.cif", "6INQ.cif", "1DFU_1_M-N.cif", "4gqj-assembly1.cif"]]
    else:
        specs = [{"kind": "docs", "examples": 2000, "seed": seed * 1000 + k} for k in range(16)]
        specs += [{"kind": "corpus", "files": [f]} for f in corpus.all_files() if f.endswith(".cif")]
    return specs


def run_shard(spec) -> ShardResult:
    res = ShardResult()
    if spec["kind"] == "docs":
        run_hypothesis(PROP_ID, st_cases(), oracle, seed=spec["seed"], max_examples=spec["examples"], result=res,
                       to_json=to_json, classify=classify, sample_cap=1)
        res.skipped += res.classes.get("discarded-by-mmcif-self-check", 0)
    else:
        for f in spec["files"]:
            if f not in corpus.all_files():
                continue
            for op in CORPUS_OPS:
                case = {"file": f, "op": dict(op)}
                check_case(PROP_ID, oracle, case, res, to_json=to_json)
                nt, labs = classify(case)
                res.note_case(to_json(case), nt, labs)
    res.exhaustive = False
    return res


def replay(case):
    return oracle(dict(case))
