"""C16 - the all-dot-brackets list is exactly the set of greedy-stable assignments."""

from __future__ import annotations

import itertools
import math

from rnaverif import ssref
from rnaverif.runner import D, HarnessError, ShardResult, check_case, run_hypothesis

PROP_ID = "C16"
LEVEL = "exploration"
RULE = (
    "Domains: (a) all matchings on <=N positions exhaustively (N=9 quick, 11 thorough); (a') every chord diagram on k chords written with one "
    "unpaired nucleotide between endpoints, so k chords are k stems: all conflict-graph topologies AND all 5'->3' "
    "stem orders with exactly k stems, k=5,6 quick (945 + 10395) and k=5,6,7 thorough (+135135); (b) Hypothesis blow-ups "
    "and path/star-shaped conflict graphs with components of <=6 (quick) / <=8 (thorough) stems and <=20000 "
    "expected notations. Oracle built WITHOUT permutations: per component all proper colourings that satisfy the "
    "greedy-stability (Grundy) condition, cartesian product over components; compared as sets of per-stem level "
    "vectors read from the strings; plus: no repetition in the list, contains dot_bracket and fcfs, singleton "
    "round-bracket string for knot-free structures. (c) the 3D entry point: Mapping2D3D.all_dot_brackets for Hypothesis "
    "pair lists over corpus structures (also relabelled: chains cut into pieces, a chain id coming back after another "
    "chain, gap detection on/off) must list, strand by strand, exactly the greedy-stable assignments of its own BPSEQ. Non-trivial: >=2 components "
    "or a component that is not a clique; distinct = distinct (sequence, pair set)."
)
ASSUMPTIONS = [
    "components above 8 (quick) / 9 (thorough) stems are not generated (the implementation is factorial in component size)",
    "trusted: the colouring enumerator in rnaverif/ssref.py",
]


def expected_size_bound(comps):
    return math.prod(math.factorial(len(c)) for c in comps) if comps else 1


PRE_QUERIES = [(), (), ("fcfs",), ("dot_bracket",), ("fcfs", "dot_bracket"), ("dot_bracket", "fcfs"), ("elements",)]


def oracle(case) -> list:
    from rnapolis.common import BpSeq

    seq, pairs = case[0], [tuple(p) for p in case[1]]
    st, g, comps = ssref.describe(seq, pairs)
    text = ssref.bpseq_text(seq, pairs)
    b = BpSeq.from_string(text)
    _decoys = [BpSeq.from_string(t) for t in ssref.decoy_texts(len(seq))]  # other objects alive while this one is asked
    out = []
    # the other notations of the same object may have been asked for first (chosen by a fixed function of the case)
    earlier = PRE_QUERIES[(len(seq) * 13 + len(pairs) * 5 + sum(i for i, _ in pairs)) % len(PRE_QUERIES)]
    for q in earlier:
        getattr(b, q)
    alls = b.all_dot_brackets
    if not isinstance(alls, list):
        return [D("C16:not-a-list", f"all_dot_brackets returned {type(alls).__name__}")]
    strs = [getattr(x, "structure", None) for x in alls]
    if any(x.sequence != seq for x in alls):
        out.append(D("C16:sequence", "a member carries another sequence"))
    if len(set(strs)) != len(strs):
        out.append(D("C16:repetition", f"{len(strs) - len(set(strs))} repeated notations"))
    got = set()
    for s in strs:
        lv = ssref.stem_levels_from_structure(s, st) if isinstance(s, str) and len(s) == len(seq) else None
        if lv is None:
            out.append(D("C16:unreadable-member", f"member {s!r} does not write every stem on one bracket type"))
            return out
        # every non-stem position must be '.'
        paired = {p for ij in pairs for p in ij}
        if any((ch != ".") != ((k + 1) in paired) for k, ch in enumerate(s)):
            out.append(D("C16:member-not-the-structure", f"member {s!r} brackets other positions than the pairs"))
            return out
        got.add(tuple(lv))
    # reference: product of Grundy colourings of the components
    per_comp = [ssref.grundy_colourings(c, g) for c in comps]
    want = set()
    for combo in itertools.product(*per_comp):
        lv = [0] * len(st)
        for comp, cols in zip(comps, combo):
            for v, c in zip(comp, cols):
                lv[v] = c
        want.add(tuple(lv))
    missing = sorted(want - got)
    extra = sorted(got - want)
    if missing:
        out.append(D("C16:missing-assignment", f"{len(missing)} greedy-stable assignment(s) absent, e.g. levels {missing[0]} for stems {st}"))
    if extra:
        lv = extra[0]
        why = "improper" if not ssref.is_proper(lv, g) else "not greedy-stable"
        out.append(D(f"C16:extra-assignment:{why}", f"{len(extra)} listed assignment(s) are {why}, e.g. {lv} for stems {st}"))
    if b.fcfs.structure not in strs:
        out.append(D("C16:fcfs-absent", f"FCFS {b.fcfs.structure!r} not in the list"))
    if b.dot_bracket.structure not in strs:
        out.append(D("C16:optimal-absent", f"optimal {b.dot_bracket.structure!r} not in the list"))
    if not comps:
        if len(strs) != 1 or set(strs[0]) - set("()."):
            out.append(D("C16:knot-free-not-singleton", f"{strs[:3]}"))
    return out


def oracle_mapped(case) -> list:
    """the 3D entry point: Mapping2D3D.all_dot_brackets (what `annotator -a` / `adapter -a` print) for a drawn pair
    list over a (relabelled) corpus structure must list, strand by strand, exactly the greedy-stable assignments of
    the mapping's own BPSEQ"""
    from rnapolis.tertiary import Mapping2D3D
    from rnaverif.props import c06

    info = case.setdefault("_info", {})
    s3, pairs2d = c06.pairs_for_case(case, info)
    if s3 is None:
        info["skipped"] = True
        return []
    m = Mapping2D3D(s3, pairs2d, [], case["find_gaps"])
    btext = str(m.bpseq)
    seq, pairs = "", []
    for ln in btext.strip().split("\n"):
        i, c, j = ln.split()
        seq += c
        if int(j) > int(i):
            pairs.append((int(i), int(j)))
    st, g, comps = ssref.describe(seq, pairs)
    info["comps"] = [len(c) for c in comps]
    if any(len(c) > 7 for c in comps) or expected_size_bound(comps) > 20000:
        info["skipped"] = True
        return []
    out = []
    alls = m.all_dot_brackets
    strands = []
    prev = None
    for r in [r for r in s3.residues if r.is_nucleotide]:
        if r.chain != prev:
            strands.append(r.chain)
            prev = r.chain
    info["strands"] = len(strands)
    info["repeated_chain"] = len(set(strands)) < len(strands)
    got, strs = set(), []
    for t in alls:
        lines = t.split("\n")
        if len(lines) != 3 * len(strands) or [l for l in lines[0::3]] != [f">strand_{c}" for c in strands]:
            out.append(D("C16:mapped:strand-layout", f"{len(lines)} lines / headers {lines[0::3][:4]} for strands {strands[:4]}"))
            return out
        if "".join(lines[1::3]) != seq or any(len(a) != len(b) for a, b in zip(lines[1::3], lines[2::3])):
            out.append(D("C16:mapped:sequence", f"strand sequences {lines[1::3][:3]} do not concatenate to the BPSEQ sequence / structure lengths differ"))
            return out
        sx = "".join(lines[2::3])
        strs.append(sx)
        lv = ssref.stem_levels_from_structure(sx, st)
        paired = {p for ij in pairs for p in ij}
        if lv is None or any((ch != ".") != ((k + 1) in paired) for k, ch in enumerate(sx)):
            out.append(D("C16:mapped:member-not-the-structure", f"member {sx[:60]!r} is not a notation of the mapping's BPSEQ"))
            return out
        got.add(tuple(lv))
    if len(set(strs)) != len(strs):
        out.append(D("C16:mapped:repetition", f"{len(strs) - len(set(strs))} repeated notations"))
    per_comp = [ssref.grundy_colourings(c, g) for c in comps]
    want = set()
    for combo in itertools.product(*per_comp):
        lv = [0] * len(st)
        for comp, cols in zip(comps, combo):
            for v, c in zip(comp, cols):
                lv[v] = c
        want.add(tuple(lv))
    if want - got:
        out.append(D("C16:mapped:missing-assignment", f"{len(want - got)} greedy-stable assignment(s) absent, e.g. {sorted(want - got)[0]} for stems {st}"))
    if got - want:
        out.append(D("C16:mapped:extra-assignment", f"{len(got - want)} listed assignment(s) are not greedy-stable, e.g. {sorted(got - want)[0]}"))
    if m.dot_bracket not in alls:
        out.append(D("C16:mapped:optimal-absent", "the mapping's dot_bracket text is not a member of its all_dot_brackets"))
    # the other entry point on the SAME mapping, asked after the 3D list was read (and once more after a second read of
    # the 3D list): BpSeq.all_dot_brackets of the mapping's BPSEQ is the same set, with the optimal and the
    # first-come-first-served notation in it - whatever was asked of the mapping before
    for round_ in ("after-3d-read", "after-second-3d-read"):
        lower = m.bpseq.all_dot_brackets
        got2 = set()
        for db in lower:
            lv = ssref.stem_levels_from_structure(db.structure, st) if db.sequence == seq else None
            got2.add(tuple(lv) if lv is not None else ("unreadable", db.structure))
        if got2 != want:
            out.append(D(f"C16:mapped:bpseq-list-{round_}", f"BpSeq.all_dot_brackets of the mapping has {len(lower)} entries, {len(want - got2)} expected assignment(s) absent, {len(got2 - want)} foreign"))
            break
        for nm, one in (("optimal", m.bpseq.dot_bracket), ("fcfs", m.bpseq.fcfs)):
            if one not in lower:
                out.append(D(f"C16:mapped:bpseq-list-{round_}-lacks-{nm}", f"{one.structure[:60]!r} is not in BpSeq.all_dot_brackets of the mapping"))
        _ = m.all_dot_brackets
    return out


def classify_mapped(case):
    info = case.get("_info", {})
    labs = ["mapped-3d"]
    if info.get("skipped"):
        return False, labs + ["skipped"]
    if info.get("strands", 1) >= 2:
        labs.append("strands>=2")
    if info.get("repeated_chain"):
        labs.append("chain-id-in-two-runs")
    comps = info.get("comps", [])
    if comps:
        labs.append(f"maxcomp={max(comps)}")
    return bool(comps) and info.get("strands", 1) >= 2, labs


def classify(case):
    st, g, comps = ssref.describe(case[0], case[1])
    labs = []
    nonclique = any(any(len(g[v] & set(c)) < len(c) - 1 for v in c) for c in comps)
    if not comps:
        labs.append("nested")
    if len(comps) >= 2:
        labs.append("components>=2")
    if nonclique:
        labs.append("non-clique-component")
    if comps:
        labs.append(f"maxcomp={max(len(c) for c in comps)}")
    return (len(comps) >= 2 or nonclique), labs


def plan(tier, seed):
    specs = []
    if tier == "quick":
        N, K, maxcomp, hyp, shaped_n = 9, 16, 6, [(120, 7)] * 14, 120
    else:
        N, K, maxcomp, hyp, shaped_n = 11, 64, 8, [(500, 10)] * 16, 600
    for k in range(K):
        specs.append({"kind": "exhaustive", "N": N, "slice": k, "of": K})
    # every chord diagram on k spaced chords: all conflict-graph topologies and all stem orders with exactly k stems
    for k, shards in ([(5, 2), (6, 14)] if tier == "quick" else [(5, 1), (6, 8), (7, 55)]):
        for sl in range(shards):
            specs.append({"kind": "chords", "k": k, "slice": sl, "of": shards})
    for idx, (n, m) in enumerate(hyp):
        specs.append({"kind": "blowup", "examples": n, "max_abstract": m, "maxcomp": maxcomp, "seed": seed * 1000 + idx})
    specs.append({"kind": "shaped", "examples": shaped_n, "maxcomp": maxcomp, "seed": seed * 1000 + 99})
    # groups at and around every size a size-limited enumeration might special-case: chains and stars of 7, 8 (and,
    # thorough, 9) stems, with and without an independent H-type knot next to them
    for k in ([7, 8] if tier == "quick" else [7, 8, 9]):
        for shape in ("path", "star"):
            specs.append({"kind": "big-group", "k": k, "shape": shape})
    # the same crossing pattern twice (thorough: also three times), separated by 0..8 plain hairpins: independent
    # groups that look alike, at every offset of the stem numbering
    for sl in range(3 if tier == "quick" else 12):
        specs.append({"kind": "repeated-motif", "k": 4, "slice": sl, "of": 3 if tier == "quick" else 12, "copies": [2] if tier == "quick" else [2, 3]})
    for k in range(4 if tier == "quick" else 16):
        specs.append({"kind": "mapped", "examples": 60 if tier == "quick" else 500, "seed": seed * 1000 + 300 + k})
    return specs


def _small(maxcomp):
    def ok(case):
        st, g, comps = ssref.describe(case[0], case[1])
        return all(len(c) <= maxcomp for c in comps) and expected_size_bound(comps) <= 20000 and \
            sum(math.factorial(len(c)) for c in comps) <= 50000
    return ok


def run_shard(spec) -> ShardResult:
    from rnaverif.props.c02 import shaped

    res = ShardResult()
    kind = spec["kind"]
    tj = lambda c: [c[0], [list(p) for p in c[1]]]
    if kind == "exhaustive":
        idx = 0
        for n in range(1, spec["N"] + 1):
            seq = ssref.seq_for(n, n)
            for m in ssref.all_matchings(n):
                if idx % spec["of"] == spec["slice"]:
                    case = (seq, m)
                    nt, labs = classify(case)
                    res.note_case(tj(case), nt, labs, sample_cap=1)
                    check_case(PROP_ID, oracle, case, res, to_json=tj)
                idx += 1
        res.exhaustive = True
        res.extra["exhaustive_structures"] = res.evaluations
    elif kind == "chords":
        for idx, chords in enumerate(ssref.perfect_matchings(spec["k"])):
            if idx % spec["of"] == spec["slice"]:
                case = ssref.chord_structure(chords)
                nt, labs = classify(case)
                res.note_case(tj(case), nt, labs + [f"chord-diagram-k={spec['k']}"], sample_cap=1)
                check_case(PROP_ID, oracle, case, res, to_json=tj)
        res.exhaustive = True
        res.extra[f"chord_diagrams_k{spec['k']}"] = res.evaluations
    elif kind == "blowup":
        strat = ssref.st_structures(max_abstract=spec["max_abstract"], min_abstract=2, max_stem=3).filter(_small(spec["maxcomp"]))
        run_hypothesis(PROP_ID, strat, oracle, seed=spec["seed"], max_examples=spec["examples"], result=res,
                       to_json=tj, classify=classify)
        res.exhaustive = False
    elif kind == "repeated-motif":
        idx = 0
        for chords in ssref.perfect_matchings(spec["k"]):
            for between in range(0, 9):
                for copies in spec["copies"]:
                    if idx % spec["of"] == spec["slice"]:
                        case = ssref.repeated_motif(chords, between, copies)
                        nt, labs = classify(case)
                        res.note_case(tj(case), nt, labs + ["repeated-motif"], sample_cap=1)
                        check_case(PROP_ID, oracle, case, res, to_json=tj)
                    idx += 1
        res.exhaustive = True
    elif kind == "big-group":
        k = spec["k"]
        for lens, extra in (([1] * k, False), ([1 + (t % 2) for t in range(k)], True)):
            seq, pairs = shaped(spec["shape"], k, lens)
            if extra:
                # an independent H-type pseudoknot appended after the group
                n = len(seq)
                pairs = tuple(sorted(list(pairs) + [(n + 1, n + 5), (n + 3, n + 7)]))
                seq = ssref.seq_for(n + 7, k)
            case = (seq, pairs)
            nt, labs = classify(case)
            res.note_case(tj(case), nt, labs + [f"group-of-{k}-stems"], sample_cap=1)
            check_case(PROP_ID, oracle, case, res, to_json=tj)
        res.exhaustive = False
    elif kind == "mapped":
        from rnaverif import corpus
        from rnaverif.props import c06

        files = [f for f in c06.QUICK_FILES if f in corpus.all_files()]
        run_hypothesis(PROP_ID, c06.st_cases(files), oracle_mapped, seed=spec["seed"], max_examples=spec["examples"], result=res,
                       to_json=c06.to_json, classify=classify_mapped, sample_cap=1)
        res.exhaustive = False
    elif kind == "shaped":
        from hypothesis import strategies as st

        strat = st.tuples(st.sampled_from(["path", "star"]), st.integers(2, spec["maxcomp"])).flatmap(
            lambda t: st.lists(st.integers(1, 3), min_size=t[1], max_size=t[1]).map(lambda lens: shaped(t[0], t[1], lens))
        )
        run_hypothesis(PROP_ID, strat, oracle, seed=spec["seed"], max_examples=spec["examples"], result=res,
                       to_json=tj, classify=classify)
        res.exhaustive = False
    else:
        raise HarnessError(kind)
    return res


def replay(case):
    if isinstance(case, dict):
        return oracle_mapped(dict(case))
    return oracle(case)
