"""C16 - the all-dot-brackets list is exactly the set of greedy-stable assignments."""

from __future__ import annotations

import itertools
import math

from rnaverif import ssref
from rnaverif.runner import D, HarnessError, ShardResult, check_case, run_hypothesis

PROP_ID = "C16"
LEVEL = "exploration"
RULE = (
    "Domains: (a) all matchings on <=N positions exhaustively (N=9 quick, 11 thorough); (a') every chord diagram on k chords written with one "
    "unpaired nucleotide between endpoints, so k chords are k stems: all conflict-graph topologies AND all 5'->3' "
    "stem orders with exactly k stems, k=5,6 quick (945 + 10395) and k=5,6,7 thorough (+135135); (b) Hypothesis blow-ups "
    "and path/star-shaped conflict graphs with components of <=6 (quick) / <=8 (thorough) stems and <=20000 "
    "expected notations. Oracle built WITHOUT permutations: per component all proper colourings that satisfy the "
    "greedy-stability (Grundy) condition, cartesian product over components; compared as sets of per-stem level "
    "vectors read from the strings; plus: no repetition in the list, contains dot_bracket and fcfs, singleton "
    "round-bracket string for knot-free structures; Mapping-independent (BpSeq only). Non-trivial: >=2 components "
    "or a component that is not a clique; distinct = distinct (sequence, pair set)."
)
ASSUMPTIONS = [
    "components above 8 stems are not generated (the implementation is factorial in component size)",
    "trusted: the colouring enumerator in rnaverif/ssref.py",
]


def expected_size_bound(comps):
    return math.prod(math.factorial(len(c)) for c in comps) if comps else 1


def oracle(case) -> list:
    from rnapolis.common import BpSeq

    seq, pairs = case[0], [tuple(p) for p in case[1]]
    st, g, comps = ssref.describe(seq, pairs)
    text = ssref.bpseq_text(seq, pairs)
    b = BpSeq.from_string(text)
    out = []
    alls = b.all_dot_brackets
    if not isinstance(alls, list):
        return [D("C16:not-a-list", f"all_dot_brackets returned {type(alls).__name__}")]
    strs = [getattr(x, "structure", None) for x in alls]
    if any(x.sequence != seq for x in alls):
        out.append(D("C16:sequence", "a member carries another sequence"))
    if len(set(strs)) != len(strs):
        out.append(D("C16:repetition", f"{len(strs) - len(set(strs))} repeated notations"))
    got = set()
    for s in strs:
        lv = ssref.stem_levels_from_structure(s, st) if isinstance(s, str) and len(s) == len(seq) else None
        if lv is None:
            out.append(D("C16:unreadable-member", f"member {s!r} does not write every stem on one bracket type"))
            return out
        # every non-stem position must be '.'
        paired = {p for ij in pairs for p in ij}
        if any((ch != ".") != ((k + 1) in paired) for k, ch in enumerate(s)):
            out.append(D("C16:member-not-the-structure", f"member {s!r} brackets other positions than the pairs"))
            return out
        got.add(tuple(lv))
    # reference: product of Grundy colourings of the components
    per_comp = [ssref.grundy_colourings(c, g) for c in comps]
    want = set()
    for combo in itertools.product(*per_comp):
        lv = [0] * len(st)
        for comp, cols in zip(comps, combo):
            for v, c in zip(comp, cols):
                lv[v] = c
        want.add(tuple(lv))
    missing = sorted(want - got)
    extra = sorted(got - want)
    if missing:
        out.append(D("C16:missing-assignment", f"{len(missing)} greedy-stable assignment(s) absent, e.g. levels {missing[0]} for stems {st}"))
    if extra:
        lv = extra[0]
        why = "improper" if not ssref.is_proper(lv, g) else "not greedy-stable"
        out.append(D(f"C16:extra-assignment:{why}", f"{len(extra)} listed assignment(s) are {why}, e.g. {lv} for stems {st}"))
    if b.fcfs.structure not in strs:
        out.append(D("C16:fcfs-absent", f"FCFS {b.fcfs.structure!r} not in the list"))
    if b.dot_bracket.structure not in strs:
        out.append(D("C16:optimal-absent", f"optimal {b.dot_bracket.structure!r} not in the list"))
    if not comps:
        if len(strs) != 1 or set(strs[0]) - set("()."):
            out.append(D("C16:knot-free-not-singleton", f"{strs[:3]}"))
    return out


def classify(case):
    st, g, comps = ssref.describe(case[0], case[1])
    labs = []
    nonclique = any(any(len(g[v] & set(c)) < len(c) - 1 for v in c) for c in comps)
    if not comps:
        labs.append("nested")
    if len(comps) >= 2:
        labs.append("components>=2")
    if nonclique:
        labs.append("non-clique-component")
    if comps:
        labs.append(f"maxcomp={max(len(c) for c in comps)}")
    return (len(comps) >= 2 or nonclique), labs


def plan(tier, seed):
    specs = []
    if tier == "quick":
        N, K, maxcomp, hyp, shaped_n = 9, 16, 6, [(120, 7)] * 14, 120
    else:
        N, K, maxcomp, hyp, shaped_n = 11, 64, 8, [(500, 10)] * 16, 600
    for k in range(K):
        specs.append({"kind": "exhaustive", "N": N, "slice": k, "of": K})
    # every chord diagram on k spaced chords: all conflict-graph topologies and all stem orders with exactly k stems
    for k, shards in ([(5, 2), (6, 14)] if tier == "quick" else [(5, 1), (6, 8), (7, 55)]):
        for sl in range(shards):
            specs.append({"kind": "chords", "k": k, "slice": sl, "of": shards})
    for idx, (n, m) in enumerate(hyp):
        specs.append({"kind": "blowup", "examples": n, "max_abstract": m, "maxcomp": maxcomp, "seed": seed * 1000 + idx})
    specs.append({"kind": "shaped", "examples": shaped_n, "maxcomp": maxcomp, "seed": seed * 1000 + 99})
    return specs


def _small(maxcomp):
    def ok(case):
        st, g, comps = ssref.describe(case[0], case[1])
        return all(len(c) <= maxcomp for c in comps) and expected_size_bound(comps) <= 20000 and \
            sum(math.factorial(len(c)) for c in comps) <= 50000
    return ok


def run_shard(spec) -> ShardResult:
    from rnaverif.props.c02 import shaped

    res = ShardResult()
    kind = spec["kind"]
    tj = lambda c: [c[0], [list(p) for p in c[1]]]
    if kind == "exhaustive":
        idx = 0
        for n in range(1, spec["N"] + 1):
            seq = ssref.seq_for(n, n)
            for m in ssref.all_matchings(n):
                if idx % spec["of"] == spec["slice"]:
                    case = (seq, m)
                    nt, labs = classify(case)
                    res.note_case(tj(case), nt, labs, sample_cap=1)
                    check_case(PROP_ID, oracle, case, res, to_json=tj)
                idx += 1
        res.exhaustive = True
        res.extra["exhaustive_structures"] = res.evaluations
    elif kind == "chords":
        for idx, chords in enumerate(ssref.perfect_matchings(spec["k"])):
            if idx % spec["of"] == spec["slice"]:
                case = ssref.chord_structure(chords)
                nt, labs = classify(case)
                res.note_case(tj(case), nt, labs + [f"chord-diagram-k={spec['k']}"], sample_cap=1)
                check_case(PROP_ID, oracle, case, res, to_json=tj)
        res.exhaustive = True
        res.extra[f"chord_diagrams_k{spec['k']}"] = res.evaluations
    elif kind == "blowup":
        strat = ssref.st_structures(max_abstract=spec["max_abstract"], min_abstract=2, max_stem=3).filter(_small(spec["maxcomp"]))
        run_hypothesis(PROP_ID, strat, oracle, seed=spec["seed"], max_examples=spec["examples"], result=res,
                       to_json=tj, classify=classify)
        res.exhaustive = False
    elif kind == "shaped":
        from hypothesis import strategies as st

        strat = st.tuples(st.sampled_from(["path", "star"]), st.integers(2, spec["maxcomp"])).flatmap(
            lambda t: st.lists(st.integers(1, 3), min_size=t[1], max_size=t[1]).map(lambda lens: shaped(t[0], t[1], lens))
        )
        run_hypothesis(PROP_ID, strat, oracle, seed=spec["seed"], max_examples=spec["examples"], result=res,
                       to_json=tj, classify=classify)
        res.exhaustive = False
    else:
        raise HarnessError(kind)
    return res


def replay(case):
    return oracle(case)
