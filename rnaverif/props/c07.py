"""C07 - structural elements decompose the secondary structure consistently."""

from __future__ import annotations

from collections import Counter

from rnaverif import ssref
from rnaverif.runner import D, HarnessError, ShardResult, check_case, run_hypothesis

PROP_ID = "C07"
LEVEL = "exploration"
RULE = (
    "Domains: (a) every matching on <=N positions exhaustively (N=9 quick, 11 thorough); (a') every chord diagram on k chords, once with "
    "an unpaired nucleotide between endpoints and once dense (zero-length hairpins, adjacent pairs), k=5 quick, 5-6 "
    "thorough; (b') long structures of 30-90 stems (up to ~3000 nt) in a random nested arrangement with a few crossing chords; (b) Hypothesis blow-ups "
    "up to ~150 nt with multiloops, bulges, length-1 stems and pseudoknotted loops. Oracle (reference "
    "decomposition from the statement): stems == maximal stacked runs with mirrored strands (own stem finder); "
    "hairpins == exactly the pairs enclosing only unpaired nucleotides; each loop has >=2 strands, consecutive "
    "strand ends are base-paired cyclically, interiors unpaired; every unpaired nucleotide is in the interior of "
    "exactly one single strand / hairpin / loop strand; every Strand's sequence/structure equals the slice of the "
    "sequence / dot-bracket. Nothing more is demanded (empty-interior single strands are allowed). Before the elements are "
    "asked, one of 11 histories of read-only queries and derivations (paired() iterated partly / fully / 5'->3' only, text, fcfs, both removals, "
    "dot_bracket) is run on the same object, chosen by a fixed function of the case; after the first answer one of 7 "
    "histories of later queries (explicit conversion without / with a solver, fcfs, removals) runs and the "
    "elements and the dot-bracket are read again together - that pair is judged. Non-trivial: "
    "structure with a multiloop-capable branching (>=3 stems), a one-nucleotide bulge, a length-1 stem or a "
    "crossing; distinct = distinct (sequence, pair set). Also the motif_extractor command line on BPSEQ / dot-bracket files "
    "with every combination of --remove-isolated / --remove-pseudoknots: printed structure == expected reduced "
    "structure, printed elements == library elements, reduced structure obeys the same oracle."
)
ASSUMPTIONS = [
    "interior of a strand = its positions other than its paired end nucleotides (5'/3' tails: other than the one paired end)",
    "exhaustive only up to N positions; larger structures are sampled",
    "trusted: reference stem finder in rnaverif/ssref.py",
]


PRE_QUERY_FUNCS = {
    "any-paired": lambda b: any(b.paired()),
    "list-paired": lambda b: list(b.paired()),
    "list-paired-5to3": lambda b: list(b.paired(only5to3=True)),
    "first-paired": lambda b: next(iter(b.paired()), None),
    "text": lambda b: (str(b), b.sequence),
    "fcfs": lambda b: b.fcfs,
    "dot-bracket": lambda b: b.dot_bracket,
    "removals": lambda b: (b.without_pseudoknots(), b.without_isolated()),
}
PRE_QUERIES = [(), (), ("any-paired",), ("list-paired",), ("list-paired-5to3",), ("first-paired", "text"), ("fcfs",),
               ("text", "list-paired", "dot-bracket"), ("dot-bracket", "any-paired"), ("removals",), ("removals", "text")]


def _convert_cbc(b):
    import pulp

    return b.convert_to_dot_bracket(pulp.PULP_CBC_CMD(msg=False))


POST_QUERY_FUNCS = {
    "convert-none": lambda b: b.convert_to_dot_bracket(None),
    "convert-cbc": _convert_cbc,
    "fcfs": lambda b: b.fcfs,
    "removals": lambda b: (b.without_isolated(), b.without_pseudoknots()),
}
POST_QUERIES = [(), (), (), ("convert-none",), ("fcfs",), ("convert-none", "removals"), ("convert-cbc",)]


def oracle(case) -> list:
    from rnapolis.common import BpSeq

    seq, pairs = case[0], [tuple(p) for p in case[1]]
    n = len(seq)
    partner = {}
    for i, j in pairs:
        partner[i] = j
        partner[j] = i
    text = ssref.bpseq_text(seq, pairs)
    b = BpSeq.from_string(text)
    # other structure objects come into being before this one is asked (state shared between objects would show)
    _decoys = [BpSeq.from_string(t) for t in ssref.decoy_texts(n)]
    # read-only queries a client may have made on the same object before asking for the elements (chosen by a
    # fixed function of the case, so exhaustive tiers stay exhaustive): none of them may change the answer
    history = PRE_QUERIES[(n * 31 + len(pairs) * 7 + sum(i for i, _ in pairs)) % len(PRE_QUERIES)]
    for q in history:
        PRE_QUERY_FUNCS[q](b)
    el = b.elements
    if not (isinstance(el, tuple) and len(el) == 4):
        return [D("C07:shape", f"elements returned {type(el).__name__}")]
    # ... and queries made AFTER the elements were first asked: the elements and the dot-bracket are then read again,
    # together, and it is that pair of answers which is judged (strand texts are slices of the object's dot-bracket)
    later = POST_QUERIES[(n * 17 + len(pairs) * 5 + sum(j for _, j in pairs)) % len(POST_QUERIES)]
    if n > 150:
        later = tuple(q for q in later if q != "convert-cbc")  # a second MILP over thousands of nucleotides: too slow
    for q in later:
        POST_QUERY_FUNCS[q](b)
    if later:
        first = [[str(x) for x in part] for part in el]
        el = b.elements
        if not (isinstance(el, tuple) and len(el) == 4) or [[str(x) for x in part] for part in el] != first:
            return [D("C07:elements-change-after-later-queries", f"after {list(later)} the elements read differently")]
    stems, singles, hairpins, loops = el
    dbs = b.dot_bracket.structure
    out = []

    def strand_ok(tag, s):
        if not (1 <= s.first <= s.last <= n):
            out.append(D(f"C07:{tag}:strand-bounds", f"strand {s.first}-{s.last} outside 1..{n} or reversed"))
            return False
        if s.sequence != seq[s.first - 1:s.last]:
            out.append(D(f"C07:{tag}:strand-sequence", f"strand {s.first}-{s.last} sequence {s.sequence!r} != {seq[s.first - 1:s.last]!r}"))
        if s.structure != dbs[s.first - 1:s.last]:
            out.append(D(f"C07:{tag}:strand-structure", f"strand {s.first}-{s.last} structure {s.structure!r} != {dbs[s.first - 1:s.last]!r}"))
        return True

    # stems
    ref = ssref.stems(pairs)
    want = Counter((i, i + k - 1, j - k + 1, j) for i, j, k in ref)
    got = Counter()
    for s in stems:
        if strand_ok("stem", s.strand5p) and strand_ok("stem", s.strand3p):
            got[(s.strand5p.first, s.strand5p.last, s.strand3p.first, s.strand3p.last)] += 1
    if got != want:
        miss = sorted((want - got).elements())
        extra = sorted((got - want).elements())
        out.append(D("C07:stems:not-the-maximal-runs", f"missing {miss[:4]} extra {extra[:4]}"))
    # hairpins
    wanth = Counter()
    for i, j in pairs:
        if all(k not in partner for k in range(i + 1, j)):
            wanth[(i, j)] += 1
    goth = Counter()
    for h in hairpins:
        if strand_ok("hairpin", h.strand):
            goth[(h.strand.first, h.strand.last)] += 1
    if goth != wanth:
        out.append(D("C07:hairpins:not-exactly-the-closing-pairs",
                     f"missing {sorted((wanth - goth).elements())[:4]} extra {sorted((goth - wanth).elements())[:4]}"))
    cover = Counter()
    # loops
    for lp in loops:
        ss = lp.strands
        if len(ss) < 2:
            out.append(D("C07:loop:fewer-than-two-strands", f"{lp}"))
            continue
        good = all(strand_ok("loop", s) for s in ss)
        if not good:
            continue
        for k, s in enumerate(ss):
            nxt = ss[(k + 1) % len(ss)]
            if partner.get(s.last) != nxt.first:
                out.append(D("C07:loop:not-closed", f"loop {lp}: end {s.last} is not paired with next strand start {nxt.first}"))
                break
        for s in ss:
            if s.first not in partner or s.last not in partner:
                out.append(D("C07:loop:strand-end-unpaired", f"loop strand {s.first}-{s.last}"))
            for k in range(s.first + 1, s.last):
                if k in partner:
                    out.append(D("C07:loop:interior-paired", f"loop strand {s.first}-{s.last} contains paired {k}"))
                    break
                cover[k] += 1
    for h in hairpins:
        s = h.strand
        if 1 <= s.first <= s.last <= n:
            for k in range(s.first + 1, s.last):
                cover[k] += 1
    for sg in singles:
        s = sg.strand
        if not strand_ok("single", s):
            continue
        if sg.is5p and sg.is3p:
            rng = range(s.first, s.last + 1)
        elif sg.is5p:
            rng = range(s.first, s.last)
        elif sg.is3p:
            rng = range(s.first + 1, s.last + 1)
        else:
            rng = range(s.first + 1, s.last)
        for k in rng:
            if k in partner:
                out.append(D("C07:single:interior-paired", f"single strand {s.first}-{s.last} contains paired {k}"))
                break
            cover[k] += 1
    unpaired = [k for k in range(1, n + 1) if k not in partner]
    bad = [(k, cover[k]) for k in unpaired if cover[k] != 1]
    if bad:
        if not pairs:
            out.append(D("C07:coverage:no-pairs", f"pairing-free structure of {n} nt: unpaired nucleotides covered {bad[:3]} times"))
        else:
            under = [k for k, c in bad if c == 0]
            over = [k for k, c in bad if c > 1]
            if under:
                out.append(D("C07:coverage:uncovered", f"unpaired nucleotides {under[:5]} lie in no element"))
            if over:
                out.append(D("C07:coverage:covered-twice", f"unpaired nucleotides {over[:5]} lie in several elements"))
    return out


def oracle_cli(case):
    """motif_extractor.main on a file: printed dot-bracket and element lines == library answers for the
    (optionally reduced) structure, and the reduced structure obeys the decomposition oracle"""
    import contextlib
    import io
    import os
    import sys

    import rnapolis.motif_extractor as me
    from rnapolis.common import BpSeq
    from rnaverif.runner import WORK_DIR

    seq, pairs = case[0], [tuple(p) for p in case[1]]
    opts = case[2]
    text = ssref.bpseq_text(seq, pairs)
    os.makedirs(WORK_DIR, exist_ok=True)
    path = os.path.join(WORK_DIR, f"c07_{os.getpid()}.{'dbn' if opts.get('dbn') else 'bpseq'}")
    b0 = BpSeq.from_string(text)
    with open(path, "w") as f:
        if opts.get("dbn"):
            # the file may spell the structure in a notation of its own (chosen by a fixed function of the case): the
            # library's, the first-come-first-served one, or the library's with every bracket kind moved one kind up -
            # all three denote the same pairs
            db = b0.dot_bracket
            structure = db.structure
            variant = (len(seq) + 3 * len(pairs)) % 3
            if variant == 1:
                structure = b0.fcfs.structure
            elif variant == 2 and not (set(structure) & {ssref.OPEN[-1], ssref.CLOSE[-1]}):
                up = {c: ssref.OPEN[k + 1] for k, c in enumerate(ssref.OPEN[:-1])}
                up.update({c: ssref.CLOSE[k + 1] for k, c in enumerate(ssref.CLOSE[:-1])})
                structure = "".join(up.get(c, c) for c in structure)
            f.write((">strand\n" if opts.get("header") else "") + db.sequence + "\n" + structure + "\n")
        else:
            f.write(text + "\n")
    argv = ["motif_extractor", "--dbn" if opts.get("dbn") else "--bpseq", path]
    if opts.get("remove_isolated"):
        argv.append("--remove-isolated")
    if opts.get("remove_pseudoknots"):
        argv.append("--remove-pseudoknots")
    buf = io.StringIO()
    old = sys.argv
    try:
        sys.argv = argv
        with contextlib.redirect_stdout(buf):
            me.main()
    finally:
        sys.argv = old
        os.remove(path)
    lines = buf.getvalue().split("\n")
    out = []
    # expected reduced structure (semantics of C12): isolated pairs first, then pseudoknots
    cur = sorted(pairs)
    if opts.get("remove_isolated"):
        keep = []
        for i, j, k in ssref.stems(cur):
            if k >= 2:
                keep += [(i + t, j - t) for t in range(k)]
        cur = sorted(keep)
    b = BpSeq.from_string(ssref.bpseq_text(seq, cur))
    if opts.get("remove_pseudoknots"):
        cur = sorted((i, j) for i, j, lev in ssref.decode(b.dot_bracket.structure) if lev == 0)
        b = BpSeq.from_string(ssref.bpseq_text(seq, cur))
    if len(lines) < 3 or lines[0] != "Full dot-bracket:" or lines[1] != seq:
        return [D("C07:cli:header", f"unexpected output head {lines[:3]}")]
    try:
        got_pairs = sorted((i, j) for i, j, _ in ssref.decode(lines[2]))
    except ssref.DecodeError as e:
        return [D("C07:cli:dot-bracket-unbalanced", f"{lines[2]!r}: {e}")]
    if got_pairs != cur:
        out.append(D("C07:cli:wrong-structure", f"options {opts}: printed {lines[2]!r} encodes {got_pairs[:5]}, expected pairs {cur[:5]}"))
        return out
    want = [str(e) for part in b.elements for e in part]
    got = [l for l in lines[3:] if l]
    # the printed strands quote the dot-bracket the tool printed; compare structure-insensitively first
    if len(got) != len(want) or [g.split()[0:3] for g in got] != [w.split()[0:3] for w in want]:
        out.append(D("C07:cli:elements-differ-from-library", f"options {opts}: tool printed {got[:3]}, library gives {want[:3]}"))
    # every printed strand quotes the sequence and the dot-bracket printed at the top of the same report
    for g in got:
        tok = g.split()
        for q in range(1, len(tok) - 3, 4):
            try:
                first, last = int(tok[q]), int(tok[q + 1])
            except ValueError:
                out.append(D("C07:cli:element-line-unreadable", f"{g!r}"))
                break
            if tok[q + 2] != lines[1][first - 1:last] or tok[q + 3] != lines[2][first - 1:last]:
                out.append(D("C07:cli:strand-text-is-not-a-slice-of-the-printed-dot-bracket",
                             f"options {opts}: {tok[0]} strand {first}-{last} prints {tok[q + 2]!r} {tok[q + 3]!r}, the report's dot-bracket there reads {lines[1][first - 1:last]!r} {lines[2][first - 1:last]!r}"))
                break
    sub = oracle((seq, cur))
    out += [D(d.sig.replace("C07:", "C07:cli-reduced:"), d.what) for d in sub]
    return out


def classify(case):
    seq, pairs = case[0], case[1]
    st, g, comps = ssref.describe(seq, pairs)
    partner = {}
    for i, j in pairs:
        partner[i] = j
        partner[j] = i
    labs = []
    if not pairs:
        return False, ["no-pairs"]
    bulge1 = False
    srt = sorted(partner)
    for a, c in zip(srt, srt[1:]):
        if c == a + 2 and partner[a] - partner[c] == 1:
            bulge1 = True
    if bulge1:
        labs.append("bulge-of-1")
    if any(k == 1 for _, _, k in st):
        labs.append("stem-of-1")
    if comps:
        labs.append("crossing")
    if len(st) >= 3:
        labs.append("stems>=3")
    nt = bulge1 or any(k == 1 for _, _, k in st) or bool(comps) or len(st) >= 3
    return nt, labs


def plan(tier, seed):
    specs = []
    if tier == "quick":
        N, K, hyp = 9, 16, [(300, 8)] * 16
    else:
        N, K, hyp = 11, 64, [(2500, 14)] * 16
    for k in range(K):
        specs.append({"kind": "exhaustive", "N": N, "slice": k, "of": K})
    for k, shards in ([(5, 2)] if tier == "quick" else [(5, 1), (6, 8)]):
        for sl in range(shards):
            for spaced in (True, False):
                specs.append({"kind": "chords", "k": k, "slice": sl, "of": shards, "spaced": spaced})
    for idx, (n, m) in enumerate(hyp):
        specs.append({"kind": "blowup", "examples": n, "max_abstract": m, "seed": seed * 1000 + idx})
    for k in range(4 if tier == "quick" else 16):
        specs.append({"kind": "large", "examples": 5 if tier == "quick" else 50, "seed": seed * 1000 + 700 + k})
    specs.append({"kind": "ladders", "ks": list(range(2, 9 if tier == "quick" else 11))})
    specs.append({"kind": "cli", "examples": 250 if tier == "quick" else 3000, "seed": seed * 1000 + 900})
    return specs


def run_shard(spec) -> ShardResult:
    res = ShardResult()
    tj = lambda c: [c[0], [list(p) for p in c[1]]]
    if spec["kind"] == "exhaustive":
        idx = 0
        for n in range(1, spec["N"] + 1):
            seq = ssref.seq_for(n, n)
            for m in ssref.all_matchings(n):
                if idx % spec["of"] == spec["slice"]:
                    case = (seq, m)
                    nt, labs = classify(case)
                    res.note_case(tj(case), nt, labs, sample_cap=1)
                    check_case(PROP_ID, oracle, case, res, to_json=tj)
                idx += 1
        res.exhaustive = True
        res.extra["exhaustive_structures"] = res.evaluations
    elif spec["kind"] == "chords":
        # every chord diagram on k chords, with an unpaired nucleotide between endpoints (k stems of one pair, every
        # loop topology) or without any (zero-length hairpins, adjacent and stacked pairs)
        for idx, chords in enumerate(ssref.perfect_matchings(spec["k"])):
            if idx % spec["of"] == spec["slice"]:
                case = ssref.chord_structure(chords, spec["spaced"])
                nt, labs = classify(case)
                res.note_case(tj(case), nt, labs + [f"chord-diagram-k={spec['k']}-{'spaced' if spec['spaced'] else 'dense'}"], sample_cap=1)
                check_case(PROP_ID, oracle, case, res, to_json=tj)
        res.exhaustive = True
    elif spec["kind"] == "ladders":
        # k mutually crossing stems of 1-4 pairs: the optimal notation needs k bracket types, letters from the fifth on
        for k in spec["ks"]:
            for stem_len in (1, 2, 3, 4):
                for gap in (0, 1):
                    case = ssref.ladder(k, stem_len, gap)
                    nt, labs = classify(case)
                    res.note_case(tj(case), nt, labs + [f"ladder-k={k}"], sample_cap=1)
                    check_case(PROP_ID, oracle, case, res, to_json=tj)
        res.exhaustive = False
    elif spec["kind"] == "large":
        run_hypothesis(PROP_ID, ssref.st_large_structures(max_pairs=90), oracle, seed=spec["seed"], max_examples=spec["examples"],
                       result=res, to_json=tj, classify=lambda c: (classify(c)[0], classify(c)[1] + ["large"]), sample_cap=0, shrink=False)
        res.exhaustive = False
    elif spec["kind"] == "blowup":
        run_hypothesis(PROP_ID, ssref.st_structures(max_abstract=spec["max_abstract"]), oracle, seed=spec["seed"],
                       max_examples=spec["examples"], result=res, to_json=tj, classify=classify)
        res.exhaustive = False
    elif spec["kind"] == "cli":
        from hypothesis import strategies as st

        opts = st.fixed_dictionaries({"dbn": st.booleans(), "header": st.booleans(), "remove_isolated": st.booleans(),
                                      "remove_pseudoknots": st.booleans()})
        strat = st.tuples(ssref.st_structures(max_abstract=6, max_stem=3), opts).map(lambda t: (t[0][0], t[0][1], t[1]))
        run_hypothesis(PROP_ID, strat, oracle_cli, seed=spec["seed"], max_examples=spec["examples"], result=res,
                       to_json=lambda c: [c[0], [list(p) for p in c[1]], c[2]],
                       classify=lambda c: (classify((c[0], c[1]))[0], ["cli"] + [k for k, v in c[2].items() if v]))
        res.exhaustive = False
    else:
        raise HarnessError(spec["kind"])
    return res


def replay(case):
    if len(case) == 3 and isinstance(case[2], dict):
        return oracle_cli(case)
    return oracle(case)
