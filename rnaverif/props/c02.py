"""C02 - pseudoknot order assignment is a proper and optimal level assignment."""

from __future__ import annotations

from rnaverif import ssref
from rnaverif.runner import D, HarnessError, ShardResult, check_case, run_hypothesis

PROP_ID = "C02"
LEVEL = "exploration"
RULE = (
    "Same structure domains as C01 ((a) all matchings on <=N positions exhaustively, N=9 quick / 11 thorough; "
    "(b) Hypothesis blow-ups with stems of 1-6 pairs so lengths, not only topology, decide the optimum; (a') every chord diagram on k spaced chords with unit stems (k=5 quick; 5-7 thorough) and with fixed "
    "unequal stem-length patterns (k=4,5 quick; 4-6 thorough); (c) "
    "path/star/cycle-shaped conflict graphs built on purpose), restricted to conflict components of <=10 stems. "
    "Oracle: independent exact optimiser (own stem finder, conflict graph, branch-and-bound over proper "
    "colourings) - compares SCORES, never strings; also properness, Grundy condition (no stem could move lower), "
    "score >= FCFS score, pseudoknot-free => only round brackets; both BpSeq.dot_bracket and "
    "convert_to_dot_bracket(CBC); the notations of the objects returned by without_isolated() / without_pseudoknots() are judged the same way for the derived pairing; "
    "additionally convert_to_dot_bracket with a scripted solver that gives up (4 "
    "non-optimal statuses or PulpSolverError, variables unset or half-set): still proper and >= FCFS; half of the unequal-length chord-diagram shards judge every request AFTER a conversion in the same process whose solver - an instance of the bundled back-end's class - raised PuLP's error. Non-trivial: >=2 mutually crossing stems of different lengths; distinct = "
    "distinct (sequence, pair set)."
)
ASSUMPTIONS = [
    "conflict components above 10 stems are not checked for optimality (reference optimiser is exponential in component size)",
    "score uses pairs per stem; the statement's nucleotide count is exactly twice that",
    "the only MILP back-end in the sandbox is the CBC bundled with PuLP",
    "trusted: the reference optimiser in rnaverif/ssref.py (cross-checked against brute-force colouring enumeration in its self-test)",
]


def _check_levels(tag, structure, seq, pairs, st, g, opt, fcfs_score):
    out = []
    levels = ssref.stem_levels_from_structure(structure, st)
    if levels is None:
        return [D(f"C02:{tag}:stem-levels-unreadable", f"{structure!r}: a stem is not written on one bracket type")]
    if not ssref.is_proper(levels, g):
        out.append(D(f"C02:{tag}:improper", f"{structure!r}: crossing stems share a level; levels {levels}"))
        return out
    sc = ssref.score(levels, st)
    if opt is None:
        pass
    elif sc < opt:
        out.append(D(f"C02:{tag}:suboptimal", f"{structure!r} scores {sc}, optimum {opt}; stems {st}"))
    elif sc > opt:
        raise HarnessError(f"reference optimum {opt} below achieved proper score {sc} on {pairs}")
    # ("no stem could be moved to a lower level" is a clause of its own: judged whether or not an optimum is known)
    if not ssref.is_grundy(levels, g):
        out.append(D(f"C02:{tag}:stem-could-move-lower", f"{structure!r}: levels {levels} not greedy-stable"))
    if fcfs_score is not None and sc < fcfs_score:
        out.append(D(f"C02:{tag}:worse-than-fcfs", f"{structure!r} scores {sc} < FCFS {fcfs_score}"))
    if not any(g.values()) and set(structure) - set("()."):
        out.append(D(f"C02:{tag}:knot-free-uses-higher-brackets", f"{structure!r}"))
    return out


def _failed_call_first():
    """history before the judged request: in the same process, one conversion of a knotted structure whose solver - an
    instance of the bundled back-end's own class, so it carries the same class-level name - raised PuLP's solver error
    (what a killed CBC or a full temp directory gives). Its own result is C13's matter; the requests judged AFTER it
    are fresh objects with working solvers and owe the optimum all the same."""
    import pulp
    from rnapolis.common import BpSeq

    class Failing(pulp.PULP_CBC_CMD):
        def actualSolve(self, lp, **kw):
            raise pulp.PulpSolverError("injected solver failure")

    for txt in ("1 A 3\n2 C 4\n3 U 1\n4 G 2\n", ssref.bpseq_text(*ssref.ladder(3, 2, 1)[:2])):
        try:
            BpSeq.from_string(txt).convert_to_dot_bracket(Failing(msg=False))
        except Exception:
            pass


def oracle(case) -> list:
    import pulp
    from rnapolis.common import BpSeq

    if len(case) > 2 and case[2] == "after-failed-call":
        _failed_call_first()
    seq, pairs = case[0], [tuple(p) for p in case[1]]
    st, g, comps = ssref.describe(seq, pairs)
    # beyond 10 stems in one group the reference optimiser is not run: properness, greedy stability against FCFS and
    # ">= FCFS" are still judged, optimality is not
    big = any(len(c) > 10 for c in comps)
    opt = None if big else ssref.optimal_score(st, g)
    text = ssref.bpseq_text(seq, pairs)
    b = BpSeq.from_string(text)
    out = []
    f = b.fcfs.structure
    fl = ssref.stem_levels_from_structure(f, st)
    fcfs_score = None
    if fl is not None and ssref.is_proper(fl, g):
        fcfs_score = ssref.score(fl, st)
        fcfs_score = max(fcfs_score, ssref.score(ssref.fcfs_levels(st, g), st))
    else:
        out.append(D("C02:fcfs:improper", f"FCFS {f!r} is not a proper assignment"))
    out += _check_levels("dot_bracket", b.dot_bracket.structure, seq, pairs, st, g, opt, fcfs_score)
    b2 = BpSeq.from_string(text)
    solver = pulp.PULP_CBC_CMD(msg=False)
    s_conv = b2.convert_to_dot_bracket(solver).structure
    out += _check_levels("convert", s_conv, seq, pairs, st, g, opt, fcfs_score)
    # both entry points claim the optimum, so their scores must be EQUAL whatever the optimum is (this also decides
    # structures whose groups of crossing stems are beyond the reference optimiser)
    l1, l2 = ssref.stem_levels_from_structure(b.dot_bracket.structure, st), ssref.stem_levels_from_structure(s_conv, st)
    if l1 is not None and l2 is not None and ssref.is_proper(l1, g) and ssref.is_proper(l2, g) and ssref.score(l1, st) != ssref.score(l2, st):
        out.append(D("C02:entry-points-differ-in-score", f"dot_bracket scores {ssref.score(l1, st)}, convert_to_dot_bracket(fresh CBC) scores {ssref.score(l2, st)}: {b.dot_bracket.structure!r} vs {s_conv!r}"))
    # structures DERIVED by the library itself are structures too: the notation of what without_isolated() /
    # without_pseudoknots() return must be proper and optimal for the derived pairing
    for name in ("without_isolated", "without_pseudoknots"):
        try:
            d = getattr(BpSeq.from_string(text), name)()
            dtext = str(d)
            dseq, dpairs = "", []
            for ln in dtext.split("\n"):
                if not ln.strip():
                    continue
                i, c, j = ln.split()
                dseq += c
                if int(j) > int(i):
                    dpairs.append((int(i), int(j)))
            dst, dg, dcomps = ssref.describe(dseq, dpairs)
            if any(len(c) > 10 for c in dcomps):
                continue
            dopt = ssref.optimal_score(dst, dg)
            dfl = ssref.fcfs_levels(dst, dg)
            out += _check_levels(f"derived-{name}", d.dot_bracket.structure, dseq, dpairs, dst, dg, dopt, ssref.score(dfl, dst))
        except HarnessError:
            raise
        except Exception as exc:
            out.append(D(f"C02:derived-{name}:raised:{type(exc).__name__}", f"{exc!r}"[:200]))
    if comps:
        # the same entry point with a solver that cannot deliver an optimum (gives up with a non-optimal status
        # or raises PuLP's solver error): optimality cannot be demanded, properness and ">= FCFS" still can
        from rnaverif.props.c13 import _make_scripted

        Scripted = _make_scripted(pulp)
        for beh in ("notsolved", "undefined", "unbounded", "infeasible", "raise"):
            for varmode in ("unset", "half"):
                b3 = BpSeq.from_string(text)
                try:
                    s3 = b3.convert_to_dot_bracket(Scripted([(beh, varmode)])).structure
                except Exception as exc:  # totality is C13's claim; here it only means nothing to judge
                    out.append(D(f"C02:giveup:raised:{type(exc).__name__}", f"solver behaviour {beh}/{varmode}: {exc!r}"[:300]))
                    continue
                out += _check_levels(f"giveup", s3, seq, pairs, st, g, None, fcfs_score)
    return out


def classify(case):
    seq, pairs = case[0], case[1]
    st, g, comps = ssref.describe(seq, pairs)
    labs = []
    nt = False
    for a in g:
        for b in g[a]:
            if st[a][2] != st[b][2]:
                nt = True
    if comps:
        labs.append("knotted")
        labs.append(f"maxcomp={min(max(len(c) for c in comps), 6)}")
        # component that is not a clique => optimum differs from "one level per stem"
        for c in comps:
            if any(len(g[v] & set(c)) < len(c) - 1 for v in c):
                labs.append("non-clique-component")
                break
        fl = ssref.fcfs_levels(st, g)
        if ssref.score(fl, st) < ssref.optimal_score(st, g) if max(len(c) for c in comps) <= 10 else False:
            labs.append("fcfs-suboptimal")
    else:
        labs.append("nested")
    if nt:
        labs.append("unequal-crossing-lengths")
    return nt, labs


def shaped(kind: str, k: int, lens):
    """conflict graphs with a prescribed shape: path / star / cycle of k stems"""
    # path: stem t crosses stem t+1 only:  a0 a1 b0 a2 b1 a3 b2 ... b(k-1)
    if kind == "path":
        order = []
        for t in range(k + 1):
            if t < k:
                order.append(("o", t))
            if t >= 1:
                order.append(("c", t - 1))
        # o0 o1 c0 o2 c1 ... : stem t opens before stem t-1 closes
    elif kind == "star":
        # hub stem 0 crosses all others, others are nested side by side
        order = [("o", 0)]
        # others: each opens inside hub and closes outside after hub closes, nested among themselves
        order += [("o", t) for t in range(1, k)] + [("c", 0)] + [("c", t) for t in range(k - 1, 0, -1)]
    else:
        raise HarnessError(kind)
    pos = 1
    start = {}
    for what, t in order:
        start[(what, t)] = pos
        pos += lens[t] + 1
    n = pos
    pairs = []
    for t in range(k):
        for d in range(lens[t]):
            pairs.append((start[("o", t)] + d, start[("c", t)] + lens[t] - 1 - d))
    return ssref.seq_for(n, k), tuple(sorted(pairs))


LENGTH_PATTERNS = [[1, 2, 3, 1, 2, 3, 1], [3, 1, 2, 2, 1, 3, 2], [2, 2, 1, 3, 3, 1, 1], [1, 3, 1, 3, 1, 3, 1], [4, 1, 1, 2, 4, 1, 2], [2, 1, 4, 1, 2, 3, 3]]


def plan(tier, seed):
    specs = []
    if tier == "quick":
        N, K = 9, 16
        hyp = [(150, 7)] * 16
    else:
        N, K = 11, 64
        hyp = [(1200, 10)] * 16
    for k in range(K):
        specs.append({"kind": "exhaustive", "N": N, "slice": k, "of": K})
    for k, shards in ([(5, 4)] if tier == "quick" else [(5, 2), (6, 14), (7, 48)]):
        for sl in range(shards):
            specs.append({"kind": "chords", "k": k, "slice": sl, "of": shards})
    # the same diagrams with unequal stem lengths, so that lengths (not only topology) decide the optimum
    for k, shards, pats in ([(4, 1, 3), (5, 6, 2)] if tier == "quick" else [(4, 1, 6), (5, 4, 6), (6, 16, 3)]):
        for pat in range(pats):
            for sl in range(shards):
                # every second of these shards judges its requests AFTER a failed call in the same process
                specs.append({"kind": "chords", "k": k, "slice": sl, "of": shards, "lens": LENGTH_PATTERNS[pat][:k],
                              "after_failed_call": (sl + pat) % 2 == 1 or k == 4})
    for idx, (n, m) in enumerate(hyp):
        specs.append({"kind": "blowup", "examples": n, "max_abstract": m, "seed": seed * 1000 + idx})
    for k in range(4 if tier == "quick" else 16):
        specs.append({"kind": "large", "examples": 3 if tier == "quick" else 40, "seed": seed * 1000 + 700 + k})
    # (k = 9, 10 are left out: the reference optimiser needs a minute on a clique of that size)
    for k in [k for k in range(2, 14 if tier == "quick" else 21) if k not in (9, 10)]:
        specs.append({"kind": "ladders", "ks": [k]})
    specs.append({"kind": "shaped", "examples": 300 if tier == "quick" else 2000, "seed": seed * 1000 + 99})
    # densely knotted structures: 10-16 short stems in a random chord arrangement (a solver does not prove these optimal at
    # the root; tolerances, gaps and early stops of the back-end act here)
    for k in range(8 if tier == "quick" else 16):
        specs.append({"kind": "dense", "examples": 120 if tier == "quick" else 2500, "seed": seed * 1000 + 800 + k})
    # one long-range stem crossing 28-34 nested, bulge-separated stems (more crossing neighbours than bracket kinds)
    specs.append({"kind": "stars", "ks": [29, 30, 31, 33] if tier == "quick" else list(range(28, 37))})
    # near-ties between crossing stems that lie hundreds of stems apart in 5'->3' order
    for n in ((130, 270) if tier == "quick" else (60, 130, 270, 400)):
        specs.append({"kind": "enclosing", "hairpins": n})
    return specs


def run_shard(spec) -> ShardResult:
    res = ShardResult()
    kind = spec["kind"]
    tj = lambda c: [c[0], [list(p) for p in c[1]]] + list(c[2:])
    if kind == "exhaustive":
        idx = 0
        for n in range(1, spec["N"] + 1):
            seq = ssref.seq_for(n, n)
            for m in ssref.all_matchings(n):
                if idx % spec["of"] == spec["slice"]:
                    case = (seq, m)
                    nt, labs = classify(case)
                    res.note_case(tj(case), nt, labs, sample_cap=1)
                    check_case(PROP_ID, oracle, case, res, to_json=tj)
                idx += 1
        res.exhaustive = True
        res.extra["exhaustive_structures"] = res.evaluations
    elif kind == "chords":
        for idx, chords in enumerate(ssref.perfect_matchings(spec["k"])):
            if idx % spec["of"] == spec["slice"]:
                case = ssref.chord_structure(chords, True, spec.get("lens"))
                hist = []
                if spec.get("after_failed_call"):
                    case = tuple(case[:2]) + ("after-failed-call",)
                    hist = ["after-a-failed-solver-call-in-the-same-process"]
                nt, labs = classify(case)
                res.note_case(tj(case), nt, labs + [f"chord-diagram-k={spec['k']}"] + hist, sample_cap=1)
                check_case(PROP_ID, oracle, case, res, to_json=tj)
        res.exhaustive = True
        res.extra[f"chord_diagrams_k{spec['k']}"] = res.evaluations
    elif kind == "ladders":
        # k mutually crossing stems: the optimum needs k levels (two-digit level indices from k = 11 on)
        for k in spec["ks"]:
            for stem_len, gap in ((1, 0), (2, 1)):
                case = ssref.ladder(k, stem_len, gap)
                nt, labs = classify(case)
                res.note_case(tj(case), nt, labs + [f"ladder-k={k}"], sample_cap=1)
                check_case(PROP_ID, oracle, case, res, to_json=tj)
        res.exhaustive = False
    elif kind == "large":
        # long structures; crossing groups are kept within the reference optimiser's reach (<= 10 stems)
        strat = ssref.st_large_structures(max_pairs=80, max_cross=3).filter(lambda c: all(len(x) <= 10 for x in ssref.describe(c[0], c[1])[2]))
        run_hypothesis(PROP_ID, strat, oracle, seed=spec["seed"], max_examples=spec["examples"], result=res, to_json=tj,
                       classify=lambda c: (classify(c)[0], classify(c)[1] + ["large"]), sample_cap=0, shrink=False)
        res.exhaustive = False
    elif kind == "blowup":
        run_hypothesis(PROP_ID, ssref.st_structures(max_abstract=spec["max_abstract"], min_abstract=2), oracle,
                       seed=spec["seed"], max_examples=spec["examples"], result=res, to_json=tj, classify=classify)
        res.exhaustive = False
    elif kind == "stars":
        for k in spec["ks"]:
            for stem_len in (1, 2, 3):
                case = ssref.star(k, stem_len)
                nt, labs = classify(case)
                res.note_case([f"star", k, stem_len], nt, labs + [f"one-stem-crossing-{k}-others"], sample_cap=1)
                check_case(PROP_ID, oracle, case, res, to_json=tj)
        res.exhaustive = False
    elif kind == "dense":
        from hypothesis import strategies as st

        def build(t):
            k, perm, lens = t
            perm = [p for p in perm if p < 2 * k]
            chords = [tuple(sorted((perm[2 * i], perm[2 * i + 1]))) for i in range(k)]
            return ssref.chord_structure(sorted(chords), True, lens[:k])

        strat = st.tuples(st.integers(10, 16), st.permutations(list(range(32))), st.lists(st.integers(1, 2), min_size=16, max_size=16)).map(build)
        run_hypothesis(PROP_ID, strat, oracle, seed=spec["seed"], max_examples=spec["examples"], result=res, to_json=tj,
                       classify=lambda c: (classify(c)[0], classify(c)[1] + ["densely-knotted-10-16-stems"]), sample_cap=0)
        res.exhaustive = False
    elif kind == "enclosing":
        H, T = [(0, 2), (1, 3)], [(0, 3), (1, 4), (2, 5)]
        for chords, lens in ((H, (3, 2)), (H, (2, 3)), (H, (4, 3)), (T, (4, 3, 2)), (T, (2, 3, 4)), (T, (3, 4, 3))):
            for gap in range(len(chords) * 2 - 1):
                case = ssref.with_hairpins_inside(chords, lens, gap, spec["hairpins"])
                nt, labs = classify(case)
                res.note_case([len(case[0]), list(map(list, chords)), list(lens), gap, spec["hairpins"]], nt, labs + [f"knot-around-{spec['hairpins']}-hairpins"], sample_cap=1)
                check_case(PROP_ID, oracle, case, res, to_json=tj)
        res.exhaustive = False
    elif kind == "shaped":
        from hypothesis import strategies as st

        strat = st.tuples(st.sampled_from(["path", "star"]), st.integers(2, 7)).flatmap(
            lambda t: st.lists(st.integers(1, 7), min_size=t[1], max_size=t[1]).map(lambda lens: shaped(t[0], t[1], lens))
        )
        run_hypothesis(PROP_ID, strat, oracle, seed=spec["seed"], max_examples=spec["examples"], result=res,
                       to_json=tj, classify=classify)
        res.exhaustive = False
    else:
        raise HarnessError(kind)
    return res


def replay(case):
    return oracle(case)
