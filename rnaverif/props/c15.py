"""C15 - both reader generations and both file formats agree on structure content."""

from __future__ import annotations

import math
import os

import numpy as np

from rnaverif import atomtab, corpus
from rnaverif.runner import D, HarnessError, ShardResult, WORK_DIR, check_case, run_hypothesis

PROP_ID = "C15"
LEVEL = "exploration"
RULE = (
    "Hypothesis atom tables without alternate locations, single model, unique contiguous residue identities (1-3 "
    "chains, negative numbers, insertion-code runs, complete nucleotides and hetero groups, no two atoms closer than "
    "0.6 A), in which the P atom of drawn residues is re-positioned at 1.6 / 2.3 / 2.399 / 2.401 / 2.5 / 3.0 A from the "
    "previous residue's O3' so that connected and broken links occur on both sides of the 2.4 A threshold; each table "
    "is serialised by the harness as PDB and as mmCIF (plus, when drawn, an mmCIF dialect: optional items left out, item order "
    "permuted, author-only or label-only residue identity; nucleotides also under modified / force-field names) and read four ways (residue-level reader and table-level "
    "reader x two formats). Plus single-conformer corpus files read both ways. Oracle (differential, keyed by chain, "
    "number, insertion code): same residue keys and names, same atom-name multisets, coordinates equal to 1e-3 "
    "among all readings and the generated table; is_connected of both models == harness's O3'-P < 2.4 A (undecided "
    "within 1e-6); connected segments of the table-level reader == segments implied by that; |chi| equal within 1e-6 "
    "rad between the two implementations and the two formats. Non-trivial: table with (>=2 chains or an icode or a "
    "negative number) and >=1 connected and >=1 broken link; distinct = distinct table."
)
ASSUMPTIONS = [
    "structures without alternate locations and without atoms closer than 0.5 A (the residue-level reader's clash filter is C08's subject)",
    "residue order is not compared (the table-level reader sorts), only keyed content",
    "chi compared by magnitude as the statement says (sign convention is C18's subject)",
    "trusted: harness emitters in rnaverif/atomtab.py",
]


def write_tmp(text, ext):
    os.makedirs(WORK_DIR, exist_ok=True)
    p = os.path.join(WORK_DIR, f"c15_{os.getpid()}.{ext}")
    with open(p, "w") as f:
        f.write(text)
    return p


def read_v1(path):
    from rnapolis.parser import read_3d_structure

    with open(path) as f:
        s3 = read_3d_structure(f, None)
    out = {}
    order = []
    for r in s3.residues:
        key = (r.chain.strip(), r.number, r.icode)  # a blank chain column reads ' ' here and '' in the table-level reader
        out[key] = {"name": r.name, "atoms": sorted((a.name, a.x, a.y, a.z) for a in r.atoms), "obj": r}
        order.append(key)
    return out, order, len(s3.residues)


def read_v2(path):
    from rnapolis.parser_v2 import parse_cif_atoms, parse_pdb_atoms
    from rnapolis.tertiary_v2 import Structure

    with open(path) as f:
        df = parse_pdb_atoms(f) if path.endswith(".pdb") else parse_cif_atoms(f)
    st = Structure(df)
    out = {}
    for r in st.residues:
        key = (str(r.chain_id).strip(), r.residue_number, r.insertion_code)
        out[key] = {"name": r.residue_name, "atoms": sorted((a.name, float(a.coordinates[0]), float(a.coordinates[1]), float(a.coordinates[2])) for a in r.atoms_list), "obj": r}
    return out, st, len(st.residues)


def cmp_content(tag, a, b, out, na=None, nb=None):
    if set(a) != set(b):
        only_a = sorted(set(a) - set(b), key=str)[:3]
        only_b = sorted(set(b) - set(a), key=str)[:3]
        out.append(D(f"C15:{tag}:residue-keys-differ", f"only first: {only_a}; only second: {only_b}"))
        return
    if na is not None and nb is not None and na != nb:
        out.append(D(f"C15:{tag}:residue-count", f"{na} vs {nb} residues (a residue is split or merged)"))
    for k in a:
        if a[k]["name"] != b[k]["name"]:
            out.append(D(f"C15:{tag}:residue-name", f"{k}: {a[k]['name']!r} vs {b[k]['name']!r}"))
            return
        x, y = a[k]["atoms"], b[k]["atoms"]
        if [t[0] for t in x] != [t[0] for t in y]:
            out.append(D(f"C15:{tag}:atom-names", f"{k}: {[t[0] for t in x][:8]} vs {[t[0] for t in y][:8]}"))
            return
        for p, q in zip(x, y):
            if max(abs(p[1] - q[1]), abs(p[2] - q[2]), abs(p[3] - q[3])) > 1e-3:
                out.append(D(f"C15:{tag}:coordinates", f"{k} {p[0]}: {p[1:]} vs {q[1:]}"))
                return


def connectivity_checks(tag, v1, order, v2, st2, out, info):
    """order: residue keys in file order (from v1)"""
    # harness connectivity between consecutive residues of the same chain
    by_chain = {}
    for k in order:
        by_chain.setdefault(k[0], []).append(k)
    expected_links = {}
    for ch, keys in by_chain.items():
        keys_sorted = sorted(keys, key=lambda k: (k[1], k[2] or ""))
        for a, b in zip(keys_sorted, keys_sorted[1:]):
            ra = dict((n, (x, y, z)) for n, x, y, z in v1[a]["atoms"])
            rb = dict((n, (x, y, z)) for n, x, y, z in v1[b]["atoms"])
            if "O3'" in ra and "P" in rb:
                d = math.dist(ra["O3'"], rb["P"])
                want = None if abs(d - 2.4) <= 1e-6 else d < 2.4
            else:
                want = False
            expected_links[(a, b)] = want
            if want is True:
                info["connected"] += 1
            elif want is False:
                info["broken"] += 1
            if want is None:
                continue
            g1 = v1[a]["obj"].is_connected(v1[b]["obj"])
            if a in v2 and b in v2:
                g2 = v2[a]["obj"].is_connected(v2[b]["obj"])
            else:
                g2 = want
            if bool(g1) != want:
                out.append(D(f"C15:{tag}:connectivity-v1", f"{a}->{b}: residue-level model says {g1}, O3'-P {'<' if want else '>='} 2.4 A"))
            if bool(g2) != want:
                out.append(D(f"C15:{tag}:connectivity-v2", f"{a}->{b}: table-level model says {g2}, O3'-P {'<' if want else '>='} 2.4 A"))
    # segments of the table-level reader
    if not any(v is None for v in expected_links.values()):
        want_segments = []
        for ch, keys in by_chain.items():
            keys_sorted = sorted(keys, key=lambda k: (k[1], k[2] or ""))
            cur = []
            for k in keys_sorted:
                if cur and expected_links.get((cur[-1], k)):
                    cur.append(k)
                else:
                    if len(cur) > 1:
                        want_segments.append(cur)
                    cur = [k]
            if len(cur) > 1:
                want_segments.append(cur)
        got_segments = [[(str(r.chain_id).strip(), r.residue_number, r.insertion_code) for r in seg] for seg in st2.connected_residues]
        total = lambda seg: [(c, n, i or "") for c, n, i in seg]  # a total order whatever the insertion codes are
        if sorted(map(tuple, got_segments), key=total) != sorted(map(tuple, want_segments), key=total):
            out.append(D(f"C15:{tag}:segments", f"connected segments {got_segments[:3]} vs expected {want_segments[:3]}"))


def chi_checks(tag, v1, st2, out, info):
    ta = st2.torsion_angles
    for _, row in ta.iterrows():
        ic = row["insertion_code"]
        ic = None if (ic is None or (isinstance(ic, float) and math.isnan(ic))) else ic
        key = (str(row["chain_id"]).strip(), int(row["residue_number"]), ic)
        chi2 = row["chi"]
        if key not in v1:
            continue
        chi1 = v1[key]["obj"].chi
        has2 = chi2 is not None and not (isinstance(chi2, float) and math.isnan(chi2))
        has1 = not math.isnan(chi1)
        if has1 and has2:
            info["chi"] += 1
            if abs(abs(float(chi1)) - abs(float(chi2))) > 1e-6:
                out.append(D(f"C15:{tag}:chi-magnitude", f"{key}: |chi| {abs(chi1):.6f} (residue-level) vs {abs(float(chi2)):.6f} (table-level)"))
                return
    return ta


def oracle_table(case):
    atoms = case["atoms"]
    out = []
    info = case.setdefault("_info", {"connected": 0, "broken": 0, "chi": 0})
    info.update({"connected": 0, "broken": 0, "chi": 0})
    want = {}
    for a in atoms:
        key = (a["chain"], a["resseq"], a["icode"] or None)
        want.setdefault(key, {"name": a["resname"], "atoms": []})["atoms"].append((a["name"], a["x"], a["y"], a["z"]))
    for k in want:
        want[k]["atoms"].sort()
    if case.get("model_number") not in (None, 1):
        # the single model carries another number than 1 (one conformer cut out of an ensemble, frames counted from 0)
        atoms = [dict(a, model=case["model_number"]) for a in atoms]
    paths = {"pdb": write_tmp(atomtab.emit_pdb(atoms, always_model=case.get("model_number") not in (None, 1)), "pdb"),
             "cif": write_tmp(atomtab.emit_cif(atoms, case.get("null", "?")), "cif")}
    wants = {"pdb": want, "cif": want}
    dia = case.get("dialect")
    if dia:
        # an mmCIF dialect of the same atoms: optional items left out, item order permuted, residues identified by
        # author items only or by label items only (then the number is label_seq_id and there is no insertion code)
        drop = set(dia.get("drop", []))
        if any(a["icode"] for a in atoms):
            drop.discard("pdbx_PDB_ins_code")
        view = atoms
        if dia.get("identity") == "label" and not any(a["icode"] for a in atoms):
            drop |= {"auth_seq_id", "auth_asym_id", "auth_comp_id", "pdbx_PDB_ins_code"}
            view = atomtab.label_view(atoms)
        elif dia.get("identity") == "auth":
            drop |= {"label_seq_id", "label_asym_id", "label_comp_id"}
            drop.discard("auth_comp_id")
        wd = {}
        for a in view:
            key = (a["chain"], a["resseq"], a["icode"] or None)
            wd.setdefault(key, {"name": a["resname"], "atoms": []})["atoms"].append((a["name"], a["x"], a["y"], a["z"]))
        for k in wd:
            wd[k]["atoms"].sort()
        os.makedirs(WORK_DIR, exist_ok=True)
        pd_ = os.path.join(WORK_DIR, f"c15_{os.getpid()}_dialect.cif")
        with open(pd_, "w") as f:
            f.write(atomtab.emit_cif(atoms, case.get("null", "?"), dialect={"drop": sorted(drop), "order": dia.get("order"), "numbers": dia.get("numbers"),
                                                                            "label_seq": dia.get("label_seq") if dia.get("identity") != "label" else None}))
        paths["cif-dialect"] = pd_
        wants["cif-dialect"] = wd
    try:
        r1, r2, chis = {}, {}, {}
        for ext, p in paths.items():
            want = wants[ext]
            v1, order, n1 = read_v1(p)
            v2, st2, n2 = read_v2(p)
            r1[ext], r2[ext] = v1, v2
            cmp_content(f"{ext}:v1-vs-table", want, v1, out, len(want), n1)
            cmp_content(f"{ext}:v2-vs-table", want, v2, out, len(want), n2)
            cmp_content(f"{ext}:v1-vs-v2", v1, v2, out, n1, n2)
            if out:
                break
            info["connected"] = info["broken"] = 0
            connectivity_checks(ext, v1, order, v2, st2, out, info)
            ta = chi_checks(ext, v1, st2, out, info)
            chis[ext] = {(r["chain_id"], int(r["residue_number"]), None if (r["insertion_code"] is None or (isinstance(r["insertion_code"], float) and math.isnan(r["insertion_code"]))) else r["insertion_code"]): r["chi"] for _, r in ta.iterrows()} if ta is not None else {}
        if not out:
            cmp_content("v1:pdb-vs-cif", r1["pdb"], r1["cif"], out)
            cmp_content("v2:pdb-vs-cif", r2["pdb"], r2["cif"], out)
            for k in set(chis.get("pdb", {})) | set(chis.get("cif", {})):
                a, b = chis["pdb"].get(k), chis["cif"].get(k)
                na = a is None or (isinstance(a, float) and math.isnan(a))
                nb = b is None or (isinstance(b, float) and math.isnan(b))
                if na != nb or (not na and abs(abs(float(a)) - abs(float(b))) > 1e-6):
                    out.append(D("C15:v2:chi-pdb-vs-cif", f"{k}: chi {a} from PDB, {b} from mmCIF"))
                    break
            for k in r1["pdb"]:
                c1, c2 = r1["pdb"][k]["obj"].chi, r1["cif"][k]["obj"].chi
                if math.isnan(c1) != math.isnan(c2) or (not math.isnan(c1) and abs(c1 - c2) > 1e-6):
                    out.append(D("C15:v1:chi-pdb-vs-cif", f"{k}: chi {c1} from PDB, {c2} from mmCIF"))
                    break
    finally:
        for p in paths.values():
            try:
                os.remove(p)
            except OSError:
                pass
    seen, res = set(), []
    for d in out:
        if d.sig not in seen:
            seen.add(d.sig)
            res.append(d)
    return res


def oracle_file(case):
    fn = case["file"]
    info = case.setdefault("_info", {"connected": 0, "broken": 0, "chi": 0})
    with corpus.open_corpus(fn) as f:
        text = f.read()
    atoms = atomtab.decode_pdb(text)["atoms"] if fn.endswith(".pdb") else atomtab.decode_cif_atoms(text)
    if len({a["model"] for a in atoms}) > 1 or any(a["altloc"] for a in atoms):
        case["_skip"] = "multi-model or altloc"
        return []
    keyset = {}
    for a in atoms:
        keyset.setdefault((a["chain"], a["resseq"], a["icode"] or None), set()).add(a["resname"])
    if any(len(v) > 1 for v in keyset.values()):
        case["_skip"] = "microheterogeneity"
        return []
    # overlapping partial-occupancy conformers without altloc flags (e.g. 488d chains B/D): the
    # residue-level reader's 0.5 A clash filter applies, which is outside this property
    from rnaverif.props.c08 import close_pairs
    if close_pairs([(a["x"], a["y"], a["z"]) for a in atoms]):
        case["_skip"] = "atoms closer than 0.5 A"
        return []
    ext = "pdb" if fn.endswith(".pdb") else "cif"
    p = write_tmp(text, ext)
    out = []
    try:
        v1, order, n1 = read_v1(p)
        v2, st2, n2 = read_v2(p)
        cmp_content("corpus:v1-vs-v2", v1, v2, out, n1, n2)
        if not out:
            connectivity_checks("corpus", v1, order, v2, st2, out, info)
            chi_checks("corpus", v1, st2, out, info)
    finally:
        os.remove(p)
    return out


def _legacy(case):
    return any("*" in a["name"] for a in case.get("atoms", []))


def classify(case):
    atoms = case["atoms"]
    info = case.get("_info", {"connected": 0, "broken": 0, "chi": 0})
    labs = []
    if len({a["chain"] for a in atoms}) >= 2:
        labs.append("chains>=2")
    if any(a["icode"] for a in atoms):
        labs.append("icode")
    if any(a["resseq"] < 0 for a in atoms):
        labs.append("negative-number")
    if info["connected"]:
        labs.append("connected-link")
    if info["broken"]:
        labs.append("broken-link")
    if info["chi"]:
        labs.append("chi-compared")
    if case.get("model_number") not in (None, 1):
        labs.append("single-model-not-numbered-1")
    if _legacy(case):
        labs.append("atom-names-in-pre-2007-spelling")
    if case.get("dialect"):
        labs.append("cif-dialect-" + case["dialect"].get("identity", "both"))
        if case["dialect"].get("label_seq") == "author" and case["dialect"].get("identity") != "label":
            labs.append("label_seq_id-repeats-author-number")
    nt = bool(set(labs) & {"chains>=2", "icode", "negative-number"}) and info["connected"] >= 1 and info["broken"] >= 1
    return nt, labs


def st_cases():
    from hypothesis import strategies as st

    @st.composite
    def build(draw):
        atoms = draw(atomtab.st_tables(max_models=1, max_chains=3, max_residues=4, altlocs=False,
                                       realistic_nucleotides=draw(st.booleans()), modified=True))
        # re-serial and link residues
        res_keys = []
        for a in atoms:
            k = (a["chain"], a["resseq"], a["icode"])
            if k not in res_keys:
                res_keys.append(k)
        for prev, nxt in zip(res_keys, res_keys[1:]):
            if prev[0] != nxt[0]:
                continue
            d = draw(st.sampled_from([None, 1.6, 1.6, 2.3, 2.399, 2.401, 2.5, 3.0]))
            if d is None:
                continue
            o3 = [a for a in atoms if (a["chain"], a["resseq"], a["icode"]) == prev and a["name"] == "O3'"]
            p = [a for a in atoms if (a["chain"], a["resseq"], a["icode"]) == nxt and a["name"] == "P"]
            if not o3 or not p:
                continue
            axis = draw(st.sampled_from(["x", "y", "z"]))
            old = (p[0]["x"], p[0]["y"], p[0]["z"])
            p[0]["x"], p[0]["y"], p[0]["z"] = o3[0]["x"], o3[0]["y"], o3[0]["z"]
            p[0][axis] = round(o3[0][axis] + d, 3)
            if not atomtab.spread(atoms, 0.6):
                p[0]["x"], p[0]["y"], p[0]["z"] = old
        dialect = draw(st.one_of(st.none(), st.fixed_dictionaries({
            "drop": st.lists(st.sampled_from(["group_PDB", "id", "type_symbol", "label_alt_id", "label_entity_id", "occupancy", "B_iso_or_equiv",
                                              "pdbx_formal_charge", "auth_comp_id", "auth_atom_id", "pdbx_PDB_ins_code", "pdbx_PDB_model_num"]),
                             max_size=5, unique=True),
            "order": st.one_of(st.none(), st.integers(0, 10 ** 6)),
            "identity": st.sampled_from(["both", "both", "auth", "label"]),
            "label_seq": st.sampled_from([None, None, "author"]),
            "numbers": st.sampled_from([None, None, 0, 2, 4])})))
        if draw(st.integers(0, 3)) == 0:
            # a flat model (2D layout, idealised template): every atom in one axis-aligned plane, so that the four
            # atoms of every torsion are EXACTLY coplanar and chi is exactly 0 or 180 degrees
            axis = draw(st.sampled_from(["x", "y", "z"]))
            level = atoms[0][axis] if atoms else 0.0
            flat = [dict(a, **{axis: level}) for a in atoms]
            other = "y" if axis == "x" else "x"
            for k, a in enumerate(flat):
                # two atoms that fall onto one spot of the plane: the later one moves out of the lattice altogether
                n = 0
                while any((a["x"] - b["x"]) ** 2 + (a["y"] - b["y"]) ** 2 + (a["z"] - b["z"]) ** 2 < 0.36 for b in flat[:k]) and n < 12:
                    a[other] = round(a[other] + 61.5, 3)
                    n += 1
            if atomtab.spread(flat, 0.6) and all(-900 < a[other] < 9000 for a in flat):
                atoms = flat
        if draw(st.integers(0, 5)) == 0:
            # the atom naming of files written before 2007 (and of older modelling tools): O5*, C1*, O3* for O5', C1', O3'.
            # Every reader owes the names as written - and all four readings the same answers about these residues
            atoms = [dict(a, name=a["name"].replace("'", "*")) for a in atoms]
        return {"atoms": atoms, "null": draw(st.sampled_from(["?", "."])), "dialect": dialect, "model_number": draw(st.sampled_from([1, 1, 1, 2, 0, 7]))}

    return build()


def plan(tier, seed):
    if tier == "quick":
        specs = [{"kind": "tables", "examples": 40, "seed": seed * 1000 + k} for k in range(16)]
        specs += [{"kind": "files", "files": [f]} for f in corpus.SMALL[:8]]
    else:
        specs = [{"kind": "tables", "examples": 800, "seed": seed * 1000 + k} for k in range(16)]
        specs += [{"kind": "files", "files": [f]} for f in corpus.all_files()]
    return specs


def to_json(case):
    return {k: v for k, v in case.items() if not k.startswith("_")}


def run_shard(spec) -> ShardResult:
    res = ShardResult()
    if spec["kind"] == "tables":
        run_hypothesis(PROP_ID, st_cases(), oracle_table, seed=spec["seed"], max_examples=spec["examples"], result=res,
                       to_json=to_json, classify=classify, sample_cap=1)
    else:
        for f in spec["files"]:
            if f not in corpus.all_files():
                continue
            case = {"file": f}
            check_case(PROP_ID, oracle_file, case, res, to_json=to_json)
            info = case.get("_info", {})
            if case.get("_skip"):
                res.skipped += 1
                res.note_case({"file": f, "skipped": case["_skip"]}, False, ["corpus-skipped"])
            else:
                res.note_case({"file": f, **info}, bool(info.get("connected")) and bool(info.get("chi")), ["corpus-file"])
    res.exhaustive = False
    return res


def replay(case):
    if "file" in case:
        return oracle_file(dict(case))
    return oracle_table(case)
