"""C08 - structure reading preserves atoms, residue identity and the requested model."""

from __future__ import annotations

import os
from collections import Counter

from rnaverif import atomtab, corpus
from rnaverif.runner import D, HarnessError, ShardResult, WORK_DIR, check_case, run_hypothesis

PROP_ID = "C08"
LEVEL = "exploration"
RULE = (
    "Domains: (a) Hypothesis atom tables (1-3 models sharing residue identities as NMR ensembles do, 1-3 chains, "
    "negative numbers, insertion-code runs, alternate-location groups with distinct occupancies, hetero groups, "
    "optionally one planted pair of atoms 0.1-0.4 A apart) emitted by the harness as PDB and as mmCIF with '?' and "
    "with '.' as null marker (and, for multi-model tables, as mmCIF whose rows are ordered polymer-first / residue by "
    "residue across models / models reversed, so that a model's rows are not contiguous; and as an mmCIF *dialect*: optional items left out, item order "
    "permuted, residues identified by author items only or by label items only), read with every model argument in {None} U models present; (b) corpus files (incl. the "
    "NMR ensembles and the altloc files) decoded independently by the harness's column slicer / CIF tokenizer, read "
    "with model None and each of the first models. Oracle: expected atom list of the requested model = per (residue "
    "identity, atom name) a copy of maximal occupancy, of an isolated pair closer than 0.5 A exactly one of maximal "
    "occupancy (clusters: no two survivors certainly closer); residues in file order with chain, number, insertion "
    "code (absent <=> None), residue name, atom names and coordinates exactly as written; every returned atom "
    "carries the requested model. Non-trivial: >=2 models, an altloc group, a close pair, a negative number or an "
    "insertion code; distinct = distinct (table, format, model argument)."
)
ASSUMPTIONS = [
    "well-formed input only: contiguous residues, every numeric field present (occupancy may be absent in mmCIF)",
    "corpus mmCIF rows that carry neither a complete label identity (asym, numeric seq, comp) nor an author identity (asym, seq; name from auth or label) are outside the quantifier; the reader skips them by design",
    "when no model is requested and every row before another model's first row is an atom the reader may drop (duplicate / closer than 0.5 A), either model is accepted as 'the first' - the statement does not decide it (arises only with interleaved model rows)",
    "ties in occupancy accept any maximal copy; clusters of >=3 mutually close atoms only require that no two survivors are certainly closer than 0.5 A",
    "trusted: harness emitters/decoders in rnaverif/atomtab.py (CIF tokenizer cross-checked against IoAdapterPy on the corpus)",
]


def expected(atoms, model):
    """atoms: decoded/generated logical atoms (file order). Returns (residues, clusters)
    residues: list of (identity, {name: [acceptable atoms]}) for the requested model."""
    models = []
    for a in atoms:
        if a["model"] not in models:
            models.append(a["model"])
    m = model if (model is not None and model in models) else models[0]
    sel = [a for a in atoms if a["model"] == m]
    groups = {}
    order = []
    for a in sel:
        rid = (a.get("_label"), a["chain"], a["resseq"], a["icode"] or None, a["resname"])
        key = (rid, a["name"])
        if key not in groups:
            groups[key] = []
            order.append(key)
        groups[key].append(a)
    survivors = []  # (key, acceptable copies)
    for key in order:
        cs = groups[key]
        if any(c["occ"] is None for c in cs):
            present = [c for c in cs if c["occ"] is not None]
            if present:
                best = max(c["occ"] for c in present)
                acc = [c for c in present if c["occ"] == best]
            else:
                acc = cs[:1] if len(cs) == 1 else cs
        else:
            best = max(c["occ"] for c in cs)
            acc = [c for c in cs if c["occ"] == best]
        survivors.append((key, acc))
    return m, survivors


def close_pairs(points, limit=0.5, eps=1e-6):
    """index pairs with distance possibly <= limit; returns (pairs, certain flags)"""
    import numpy as np
    from scipy.spatial import cKDTree  # spatial index only (harness side); distances re-computed below

    if len(points) < 2:
        return []
    P = np.array(points)
    tree = cKDTree(P)
    out = []
    for i, j in sorted(tree.query_pairs(limit + 1e-3)):
        d = float(np.linalg.norm(P[i] - P[j]))
        if d <= limit + eps:
            out.append((i, j, d < limit - eps))
    return out


def ident_of(key):
    rid = key[0]
    return (rid[1], rid[2], rid[3], rid[4])


def compare(s3, atoms, model, tag):
    """compares the structure returned for `model` with the expectation computed from `atoms`"""
    out = []
    m, survivors = expected(atoms, model)
    # clash analysis over every acceptable copy of every surviving (residue, name)
    cand = []  # (survivor index, copy)
    for si, (key, acc) in enumerate(survivors):
        for c in acc:
            cand.append((si, c))
    pairs = close_pairs([(c["x"], c["y"], c["z"]) for _, c in cand])
    adj = {}
    certain = {}
    for a, b, cert in pairs:
        sa, sb = cand[a][0], cand[b][0]
        if sa == sb:
            continue
        adj.setdefault(sa, set()).add(sb)
        adj.setdefault(sb, set()).add(sa)
        certain[(min(sa, sb), max(sa, sb))] = cert
    status = {}  # survivor index -> keep | drop | one-of | either
    seen = set()
    clusters = []
    for v in adj:
        if v in seen:
            continue
        comp, todo = [], [v]
        seen.add(v)
        while todo:
            u = todo.pop()
            comp.append(u)
            for w in adj[u]:
                if w not in seen:
                    seen.add(w)
                    todo.append(w)
        comp.sort()
        clusters.append(comp)
        simple = len(comp) == 2 and certain.get((comp[0], comp[1]), False) and all(len(survivors[x][1]) == 1 for x in comp)
        if simple:
            a, b = comp
            oa, ob = survivors[a][1][0]["occ"], survivors[b][1][0]["occ"]
            if oa is None or ob is None:
                status[a] = status[b] = "keep"
            elif oa > ob:
                status[a], status[b] = "keep", "drop"
            elif ob > oa:
                status[a], status[b] = "drop", "keep"
            else:
                status[a] = status[b] = "one-of"
        else:
            for x in comp:
                status[x] = "either"

    exp_order, exp_atoms = [], {}
    for si, (key, acc) in enumerate(survivors):
        ident = ident_of(key)
        if ident not in exp_atoms:
            exp_atoms[ident] = {}
            exp_order.append(ident)
        exp_atoms[ident][key[1]] = si
    got_res = [((r.chain, r.number, r.icode, r.name), r) for r in s3.residues]
    got_idents = [g[0] for g in got_res]
    for ident, r in got_res:
        if ident not in exp_atoms:
            out.append(D(f"C08:{tag}:residue-not-in-model", f"returned residue {ident} is not a residue of model {m}"))
    certainly_present = [ident for ident in exp_order
                         if any(status.get(si, "keep") == "keep" for si in exp_atoms[ident].values())]
    cp = set(certainly_present)
    filtered_got = [i for i in got_idents if i in cp]
    if filtered_got != certainly_present:
        missing = [i for i in certainly_present if i not in got_idents]
        if missing:
            out.append(D(f"C08:{tag}:residue-missing", f"model {m}: residues {missing[:3]} absent from the result"))
        elif len(set(got_idents)) == len(got_idents):
            out.append(D(f"C08:{tag}:residue-order", f"model {m}: residues not in file order: {filtered_got[:4]} vs {certainly_present[:4]}"))
    if len(set(got_idents)) != len(got_idents):
        dup = [i for i, c in Counter(got_idents).items() if c > 1]
        out.append(D(f"C08:{tag}:residue-split-or-repeated", f"residue {dup[0]} returned {Counter(got_idents)[dup[0]]} times"))
    present_count = {}
    for ident, r in got_res:
        if ident not in exp_atoms:
            continue
        names = exp_atoms[ident]
        for a in r.atoms:
            if a.model != m:
                out.append(D(f"C08:{tag}:atom-of-other-model", f"atom {a.name} of {ident} carries model {a.model}, requested {model} (=> {m})"))
                break
        for nm, cnt in Counter(a.name for a in r.atoms).items():
            if cnt > 1:
                out.append(D(f"C08:{tag}:atom-repeated", f"{ident} atom {nm} returned {cnt} times"))
            if nm not in names:
                out.append(D(f"C08:{tag}:atom-invented", f"{ident} atom {nm} is not in model {m}"))
        for nm, si in names.items():
            acc = survivors[si][1]
            st = status.get(si, "keep")
            present = [a for a in r.atoms if a.name == nm]
            if not present:
                if st == "keep":
                    out.append(D(f"C08:{tag}:atom-missing", f"{ident} atom {nm} of model {m} absent"))
                continue
            present_count[si] = 1
            if st == "drop":
                out.append(D(f"C08:{tag}:clash-kept-lower-occupancy", f"{ident} atom {nm} (occupancy {acc[0]['occ']}) survives although an atom of higher occupancy lies within 0.5 A"))
            a = present[0]

            def same(c):
                return abs(a.x - c["x"]) < 1e-9 and abs(a.y - c["y"]) < 1e-9 and abs(a.z - c["z"]) < 1e-9

            if not any(same(c) for c in acc):
                allc = [c for c in atoms if (c["chain"], c["resseq"], c["icode"] or None, c["resname"]) == ident and c["name"] == nm]
                if any(same(c) for c in allc if c["model"] != m) and not any(same(c) for c in allc if c["model"] == m):
                    om = [c["model"] for c in allc if c["model"] != m and same(c)][0]
                    out.append(D(f"C08:{tag}:coordinates-of-other-model", f"{ident} {nm}: coordinates are those of model {om}, requested {model} (=> {m})"))
                elif any(same(c) for c in allc if c["model"] == m):
                    out.append(D(f"C08:{tag}:lower-occupancy-copy-kept", f"{ident} {nm}: returned copy has occupancy {a.occupancy}, maximal is {acc[0]['occ']}"))
                else:
                    out.append(D(f"C08:{tag}:coordinates-changed", f"{ident} {nm}: ({a.x}, {a.y}, {a.z}) vs written {(acc[0]['x'], acc[0]['y'], acc[0]['z'])}"))
    for ident in certainly_present:
        if ident not in got_idents:
            continue
    for comp in clusters:
        if len(comp) == 2 and status.get(comp[0]) == "one-of":
            n = sum(present_count.get(x, 0) for x in comp)
            if n != 1:
                out.append(D(f"C08:{tag}:clash-pair-not-reduced-to-one", f"{n} of 2 equally occupied atoms within 0.5 A survive"))
        elif status.get(comp[0]) == "either":
            alive = [x for x in comp if present_count.get(x)]
            for x in alive:
                for y in alive:
                    if x < y and certain.get((x, y), False) and len(survivors[x][1]) == 1 and len(survivors[y][1]) == 1 \
                            and survivors[x][1][0]["occ"] is not None and survivors[y][1][0]["occ"] is not None:
                        out.append(D(f"C08:{tag}:clash-cluster-keeps-close-pair", "two survivors certainly closer than 0.5 A"))
    seen_sig, res = set(), []
    for d in out:
        if d.sig not in seen_sig:
            seen_sig.add(d.sig)
            res.append(d)
    return res


def default_candidates(atoms):
    """models that 'the first model' may denote when no model is requested: the model of the first row, and - only when
    every earlier row is an atom the reader may legitimately drop (a lower-occupancy duplicate or one of two atoms
    closer than 0.5 A) - the model of the next row. For files whose models are contiguous this is one model unless a
    whole leading residue is droppable; the statement does not say which model is 'first' once its leading atoms are gone."""
    cands = []
    dup = Counter((a["model"], a.get("_label"), a["chain"], a["resseq"], a["icode"] or None, a["name"]) for a in atoms)
    by_model = {}
    for k, a in enumerate(atoms):
        by_model.setdefault(a["model"], []).append(k)
    close = set()
    for m, idx in by_model.items():
        for i, j, _ in close_pairs([(atoms[k]["x"], atoms[k]["y"], atoms[k]["z"]) for k in idx]):
            close.add(idx[i])
            close.add(idx[j])
    for k, a in enumerate(atoms):
        if a["model"] not in cands:
            cands.append(a["model"])
        droppable = dup[(a["model"], a.get("_label"), a["chain"], a["resseq"], a["icode"] or None, a["name"])] > 1 or k in close
        if not droppable:
            break
    return cands


def compare_request(s3, atoms, mreq, tag):
    """compare() for an explicit model; for the default request every admissible reading of 'the first model'"""
    if mreq is not None:
        return compare(s3, atoms, mreq, tag)
    first = None
    for m in default_candidates(atoms):
        ds = compare(s3, atoms, m, tag)
        if not ds:
            return []
        if first is None:
            first = ds
    return first or []


def read_text(text, ext, model):
    from rnapolis.parser import read_3d_structure

    os.makedirs(WORK_DIR, exist_ok=True)
    p = os.path.join(WORK_DIR, f"c08_{os.getpid()}.{ext}")
    with open(p, "w") as f:
        f.write(text)
    try:
        with open(p) as f:
            return read_3d_structure(f, model)
    finally:
        os.remove(p)


def reorder_rows(atoms, how):
    if how == "polymer-first":
        # ATOM rows of every model, then the HETATM rows of every model
        return [a for a in atoms if a["record"] != "HETATM"] + [a for a in atoms if a["record"] == "HETATM"]
    if how == "by-residue":
        # residue by residue, each listing its copy in model 1, model 2, ...
        keys = []
        for a in atoms:
            k = (a["chain"], a["resseq"], a["icode"])
            if k not in keys:
                keys.append(k)
        return [a for k in keys for a in atoms if (a["chain"], a["resseq"], a["icode"]) == k]
    if how == "models-reversed":
        models = []
        for a in atoms:
            if a["model"] not in models:
                models.append(a["model"])
        return [a for m in reversed(models) for a in atoms if a["model"] == m]
    raise HarnessError(how)


def oracle_table(case):
    atoms = case["atoms"]
    out = []
    models = sorted({a["model"] for a in atoms})
    variants = [("pdb", atomtab.emit_pdb(atoms), "pdb"), ("cif?", atomtab.emit_cif(atoms, "?"), "cif"), ("cif.", atomtab.emit_cif(atoms, "."), "cif")]
    if case.get("missing_occ"):
        # mmCIF allows an absent occupancy: every third atom is written with the null marker
        atoms2 = [dict(a) for a in atoms]
        for k, a in enumerate(atoms2):
            if k % 3 == 0:
                a["occ"] = None
        text = atomtab.emit_cif(atoms2, case["missing_occ"])
        for mreq in [None] + models:
            s3 = read_text(text, "cif", mreq)
            out += compare_request(s3, atoms2, mreq, "cif-no-occupancy")
    for tag, text, ext in variants:
        for mreq in [None] + models:
            s3 = read_text(text, ext, mreq)
            out += compare_request(s3, atoms, mreq, tag.replace("?", "-q").replace(".", "-dot"))
    dia = case.get("dialect")
    if dia:
        # mmCIF fixes neither the item order nor the presence of optional items: leave some out, permute the rest,
        # identify residues by author items only / label items only
        atoms4 = [dict(a) for a in atoms]
        drop = set(dia.get("drop", []))
        if len(models) > 1:
            drop.discard("pdbx_PDB_model_num")
        if any(a["icode"] for a in atoms4):
            drop.discard("pdbx_PDB_ins_code")
        ident = dia.get("identity", "both")
        if ident == "label" and not any(a["icode"] for a in atoms4):
            drop |= {"auth_seq_id", "auth_asym_id", "auth_comp_id", "pdbx_PDB_ins_code"}
            exp_atoms = atomtab.label_view(atoms4)
        else:
            exp_atoms = atoms4
            if ident == "auth":
                drop |= {"label_seq_id", "label_asym_id", "label_comp_id"}
                drop.discard("auth_comp_id")
        if "occupancy" in drop:
            for a in exp_atoms:
                a["occ"] = None
        text = atomtab.emit_cif(atoms4, "?", dialect={"drop": sorted(drop), "order": dia.get("order"), "numbers": dia.get("numbers"),
                                                     "label_seq": dia.get("label_seq") if ident != "label" else None})
        for mreq in [None] + (models if "pdbx_PDB_model_num" not in drop else []):
            s3 = read_text(text, "cif", mreq)
            out += compare_request(s3, exp_atoms, mreq, "cif-dialect")
    if case.get("altloc_blocks") and any(a["altloc"] for a in atoms):
        # the copies of an atom need not be adjacent: inside every residue all records of one alternate location,
        # then all of the next (as some refinement programs write them), or the reverse
        atoms5 = []
        keyf = lambda a: (a["model"], a["chain"], a["resseq"], a["icode"], a["resname"])
        i = 0
        while i < len(atoms):
            j = i
            while j < len(atoms) and keyf(atoms[j]) == keyf(atoms[i]):
                j += 1
            block = atoms[i:j]
            order = sorted(range(len(block)), key=lambda k: (block[k]["altloc"], k), reverse=(case["altloc_blocks"] == "reverse"))
            atoms5 += [block[k] for k in order]
            i = j
        for tag5, text5, ext5 in (("pdb", atomtab.emit_pdb(atoms5), "pdb"), ("cif", atomtab.emit_cif(atoms5, "?"), "cif")):
            for mreq in [None] + models:
                s3 = read_text(text5, ext5, mreq)
                out += compare_request(s3, atoms5, mreq, f"{tag5}-altloc-blocks")
    if case.get("row_order") and len(models) >= 2:
        # the atom_site loop has no ordering constraint: rows of one model need not be contiguous. Residues stay
        # contiguous within their model; the expectation is computed from the rows in the order written.
        atoms3 = reorder_rows(atoms, case["row_order"])
        text = atomtab.emit_cif(atoms3, "?")
        for mreq in [None] + models:
            s3 = read_text(text, "cif", mreq)
            out += compare_request(s3, atoms3, mreq, "cif-rows-" + case["row_order"])
    seen, res = set(), []
    for d in out:
        if d.sig not in seen:
            seen.add(d.sig)
            res.append(d)
    return res


def oracle_file(case):
    from rnapolis.parser import read_3d_structure

    fn = case["file"]
    with corpus.open_corpus(fn) as f:
        text = f.read()
    is_pdb = fn.endswith(".pdb")
    if is_pdb:
        atoms = atomtab.decode_pdb(text)["atoms"]
        for a in atoms:
            a["_label"] = None
    else:
        atoms = atomtab.decode_cif_atoms(text)
        for a in atoms:
            lab = a["_label"]
            a["_label"] = lab if (lab[0] and lab[1] and lab[2] and lab[1].lstrip("-").isdigit()) else None
        # rows with neither a complete label identity (asym, numeric seq, comp) nor a complete author identity
        # (asym, seq, comp) cannot be attributed to a residue; the reader documents that it skips them
        atoms = [a for a in atoms if a["_label"] is not None or a.get("_has_auth")]
        case["_unidentifiable_rows_skipped"] = True
    models = []
    for a in atoms:
        if a["model"] not in models:
            models.append(a["model"])
    case["_models"] = len(models)
    out = []
    for mreq in [None] + models[: case.get("max_models", 2)] + ([models[-1]] if len(models) > 2 else []):
        with corpus.open_corpus(fn) as f:
            s3 = read_3d_structure(f, mreq)
        out += compare_request(s3, atoms, mreq, "corpus")
    seen, res = set(), []
    for d in out:
        if d.sig not in seen:
            seen.add(d.sig)
            res.append(d)
    return res


def classify(case):
    atoms = case["atoms"]
    labs = []
    if len({a["model"] for a in atoms}) >= 2:
        labs.append("models>=2")
    if any(a["altloc"] for a in atoms):
        labs.append("altloc")
    if any(a["resseq"] < 0 for a in atoms):
        labs.append("negative-number")
    if any(a["icode"] for a in atoms):
        labs.append("icode")
    if not atomtab.spread([a for a in atoms], 0.5):
        labs.append("close-pair")
    if any(a["record"] == "HETATM" for a in atoms):
        labs.append("hetatm")
    if case.get("missing_occ"):
        labs.append("absent-occupancy")
    pos = {}
    for a in atoms:
        pos.setdefault((a["model"], a["chain"], a["resseq"], a["icode"]), set()).add(a["resname"])
    if any(len(v) > 1 for v in pos.values()):
        labs.append("two-residues-at-one-position")
    if case.get("row_order") and len({a["model"] for a in atoms}) >= 2:
        labs.append("cif-rows-" + case["row_order"])
    if case.get("altloc_blocks") and any(a["altloc"] for a in atoms):
        labs.append("altloc-copies-not-adjacent")
    if case.get("dialect"):
        labs.append("cif-dialect")
        labs.append("cif-identity-" + case["dialect"].get("identity", "both"))
        if case["dialect"].get("numbers") is not None:
            labs.append("cif-numbers-with-exponents-and-signs")
        if case["dialect"].get("order") is not None:
            labs.append("cif-items-permuted")
    return bool(set(labs) - {"hetatm"}), labs


def st_cases():
    from hypothesis import strategies as st

    return st.fixed_dictionaries({"atoms": atomtab.st_tables(clashes=True, modified=True, shared_positions=True),
                                  "missing_occ": st.sampled_from(["", "", "?", "."]),
                                  "row_order": st.sampled_from(["", "polymer-first", "by-residue", "models-reversed"]),
                                  "altloc_blocks": st.sampled_from(["", "forward", "reverse"]),
                                  "dialect": st.one_of(st.none(), st.fixed_dictionaries({
                                      "drop": st.lists(st.sampled_from(OPTIONAL_ITEMS), max_size=5, unique=True),
                                      "order": st.one_of(st.none(), st.integers(0, 10 ** 6)),
                                      "identity": st.sampled_from(["both", "both", "auth", "label"]),
                                      "label_seq": st.sampled_from([None, None, "author"]),
                                      # numbers spelt as the CIF grammar allows besides fixed point: 1.2345e+01, 1.2345E1, +12.345, 12.34500
                                      "numbers": st.sampled_from([None, 0, 1, 2, 3])}))})


# items of atom_site the residue-level reader documents as optional (it has a default or a fallback for each)
OPTIONAL_ITEMS = ["group_PDB", "id", "type_symbol", "label_alt_id", "label_entity_id", "occupancy", "B_iso_or_equiv",
                  "pdbx_formal_charge", "auth_comp_id", "auth_atom_id", "pdbx_PDB_ins_code", "pdbx_PDB_model_num"]
NMR = ["1JJP.cif", "6RS3.cif", "2HY9.cif"]
ALT = ["4qln.cif", "4qln.pdb", "488d.pdb"]


def plan(tier, seed):
    if tier == "quick":
        specs = [{"kind": "tables", "examples": 60, "seed": seed * 1000 + k} for k in range(16)]
        specs += [{"kind": "files", "files": [f], "max_models": 2} for f in corpus.SMALL[:6] + ["1JJP.cif", "488d.pdb", "4qln.pdb"]]
    else:
        specs = [{"kind": "tables", "examples": 1500, "seed": seed * 1000 + k} for k in range(16)]
        specs += [{"kind": "files", "files": [f], "max_models": 4} for f in corpus.all_files()]
    return specs


def to_json(case):
    return {k: v for k, v in case.items() if not k.startswith("_")}


def run_shard(spec) -> ShardResult:
    res = ShardResult()
    if spec["kind"] == "tables":
        run_hypothesis(PROP_ID, st_cases(), oracle_table, seed=spec["seed"], max_examples=spec["examples"], result=res,
                       to_json=to_json, classify=classify, sample_cap=1)
        res.extra["reads_per_table"] = 0
    else:
        for f in spec["files"]:
            if f not in corpus.all_files():
                continue
            case = {"file": f, "max_models": spec["max_models"]}
            check_case(PROP_ID, oracle_file, case, res, to_json=to_json)
            res.note_case({"file": f, "models": case.get("_models")}, case.get("_models", 1) >= 2 or f in ALT, ["corpus-file"] + (["nmr"] if case.get("_models", 1) >= 2 else []))
    res.exhaustive = False
    return res


def replay(case):
    if "file" in case:
        return oracle_file(dict(case))
    return oracle_table(case)
