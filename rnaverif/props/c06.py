"""C06 - 3D-to-2D mapping gives a valid matching and faithful text for any pair list."""

from __future__ import annotations

import math
from collections import Counter

from rnaverif import corpus, geomref, ssref
from rnaverif.runner import D, HarnessError, ShardResult, check_case, run_hypothesis

PROP_ID = "C06"
LEVEL = "exploration"
RULE = (
    "Corpus structures (quick: 8 small files; thorough: all up to ~600 residues), optionally cut into differently named "
    "chains with drawn number offsets and dropped residues (numbering gaps, chains starting far above the previous "
    "chain's last number, chains not in sorted order), x Hypothesis-drawn pair lists over "
    "their nucleotide residues: entries (r1, r2, LW, Saenger) with r1 != r2 and Saenger either absent or the class the "
    "28-class table assigns; drawn with exact duplicates, reversed duplicates (r2, r1, LW.reverse), conflicts (a "
    "residue in 2-5 canonical pairs), multiplets of degree 2-5 inside one LW class, dangling entries naming residues "
    "absent from the structure; gap detection off/on; entry point Mapping2D3D or "
    "adapter.extract_secondary_structure_from_external; also the tool's own annotation as the list. Oracle: reference "
    "mapping written from the statement - nucleotides in file order with '?' x (number gap - 1) between unconnected "
    "same-chain neighbours when gap detection is on; BPSEQ indices 1..N with those letters, symmetric, <=1 partner, "
    "every pair a canonical input pair, every conflict-free canonical pair kept; per-strand dot-bracket text "
    "concatenates to that sequence and decodes (independent decoder) to exactly the BPSEQ pairs, likewise every member "
    "of all_dot_brackets; every extended row has length N, is balanced, and the rows of each LW class together "
    "encode every distinct input pair of that class exactly once. Non-trivial: list with a canonical conflict, a "
    "multiplet of degree >=3 in one class, or a structure with >=2 strands; distinct = distinct (file, list, options)."
)
ASSUMPTIONS = [
    "which residues are nucleotides and their one-letter names come from the reader (Residue3D.is_nucleotide / one_letter_name)",
    "O3'-P distances within 1e-6 of 2.4 A make gap placement undecided (case skipped, none observed)",
    "structures with duplicate residue identities are not used",
    "trusted: reference decoder rnaverif/ssref.py, Saenger table copy in rnaverif/geomref.py",
]

CANON_SAENGER = {"XIX", "XX", "XXVIII"}


def klass(lw):
    """a Leontis-Westhof class up to orientation (cWH == cHW read from the other side): the rows are
    positional text, the tool orients a pair by residue order, the statement does not fix the side"""
    return min(lw, lw[0] + lw[2] + lw[1])


def reference_sequence(s3, find_gaps):
    """[(letter, residue index or None)] and strands [(chain, text)]; None if undecided"""
    nts = [(k, r) for k, r in enumerate(s3.residues) if r.is_nucleotide]
    seq = []
    strands = []
    prev = None
    for k, r in nts:
        if prev is not None and prev.chain == r.chain and find_gaps:
            o3 = next((a for a in prev.atoms if a.name == "O3'"), None)
            p = next((a for a in r.atoms if a.name == "P"), None)
            if o3 is not None and p is not None:
                d = math.dist((o3.x, o3.y, o3.z), (p.x, p.y, p.z))
                if abs(d - 2.4) <= 1e-6:
                    return None, None
                connected = d < 2.4
            else:
                connected = False
            if not connected:
                for _ in range(r.number - prev.number - 1):
                    seq.append(("?", None))
                    strands[-1][1].append("?")
        if prev is None or prev.chain != r.chain:
            strands.append((r.chain, []))
        seq.append((r.one_letter_name, k))
        strands[-1][1].append(r.one_letter_name)
        prev = r
    return seq, [(c, "".join(t)) for c, t in strands]


def build_pairs(s3, entries):
    """entries: [{r1, r2 (residue indices or ['absent', n]), lw, saenger(bool), }] -> BasePair list"""
    from rnapolis.common import BasePair, LeontisWesthof, Residue, ResidueAuth, ResidueLabel, Saenger

    out = []
    moved = {}

    def moved_copy():
        # the same molecule as another Structure3D object (other coordinates, as another model or a re-read file has)
        if "s3" not in moved:
            import numpy as np
            from rnaverif import gen3d

            moved["s3"] = gen3d.rebuild(s3, point_fn=lambda xyz, ri, k: xyz + np.array([7.0, -3.0, 2.0]))
        return moved["s3"]

    for e in entries:
        def res(x):
            naming = e.get("naming")
            if isinstance(x, list):
                if naming == "residue3d-of-another-object":
                    from rnapolis.tertiary import Residue3D

                    return Residue3D(None, ResidueAuth("zz", 9000 + x[1], None, "G"), 1, "G", ())
                return Residue(None, ResidueAuth("zz", 9000 + x[1], None, "G"))
            r = s3.residues[x]
            # entries that ARE 3D residue objects (the DSSR importer builds such lists) of another structure object
            if naming == "residue3d-of-another-object":
                return moved_copy().residues[x]
            # how a pair list names a residue of the structure: both identities as the structure has them (own
            # annotation), one of them only (PDB-born lists, label-only tools), or both with a label the structure
            # does not have - a list made on another form of the same molecule (mmCIF annotation applied to the
            # PDB file, renumbered label_seq_id) whose author identity still names the residue
            if naming == "auth-only" and r.auth is not None:
                return Residue(None, r.auth)
            if naming == "label-only" and r.label is not None:
                return Residue(r.label, None)
            if naming == "foreign-label" and r.auth is not None:
                return Residue(ResidueLabel("zz", 5000 + x, r.auth.name), r.auth)
            return Residue(r.label, r.auth)

        lw = LeontisWesthof[e["lw"]]
        sa = None
        if e.get("saenger") and not isinstance(e["r1"], list) and not isinstance(e["r2"], list):
            key = (s3.residues[e["r1"]].one_letter_name + s3.residues[e["r2"]].one_letter_name, e["lw"])
            name = geomref.SAENGER.get(key)
            sa = Saenger[name] if name else None
        out.append(BasePair(res(e["r1"]), res(e["r2"]), lw, sa))
    return out


def check_mapping(s3, pairs2d, find_gaps, via_adapter, info):
    from rnapolis.common import BaseInteractions
    from rnapolis.tertiary import Mapping2D3D

    out = []
    # the library enumerates every ordering of every group of crossing stems (k! per group) for all_dot_brackets: asked
    # only where that stays below 50 000 orderings (structures whose helices were broken up by bare bases or abasic
    # sites exceed it by far). The BPSEQ of a probe mapping tells (building it enumerates nothing).
    probe = Mapping2D3D(s3, pairs2d, [], find_gaps).bpseq
    _pp = [(e.index_, e.pair) for e in probe.entries if e.pair > e.index_]
    _comps = ssref.describe("N" * len(probe.entries), _pp)[2]
    _cost = 1
    for _c in _comps:
        _cost *= math.factorial(len(_c))
    ask_all = _cost <= 50000
    if not ask_all:
        info["all_dot_brackets_not_asked"] = True
    if via_adapter:
        from rnapolis.adapter import extract_secondary_structure_from_external

        s2, dbs, mapping = extract_secondary_structure_from_external(s3, BaseInteractions(pairs2d, [], [], [], []), None, find_gaps, ask_all)
        if s2.bpseq != str(mapping.bpseq) or s2.dotBracket != mapping.dot_bracket or s2.extendedDotBracket != mapping.extended_dot_bracket:
            out.append(D("C06:adapter:structure2d-differs-from-mapping", "Structure2D texts differ from the Mapping2D3D they were built from"))
        if not info.get("all_dot_brackets_not_asked") and dbs != mapping.all_dot_brackets:
            out.append(D("C06:adapter:all-dot-brackets-differ", "returned list differs from mapping.all_dot_brackets"))
    else:
        mapping = Mapping2D3D(s3, pairs2d, [], find_gaps)
    seq, strands = reference_sequence(s3, find_gaps)
    if seq is None:
        info["undecided"] = True
        return out
    n = len(seq)
    index_of = {k: i + 1 for i, (_, k) in enumerate(seq) if k is not None}
    res_index = {}
    for k, r in enumerate(s3.residues):
        if r.label is not None:
            res_index.setdefault(("L", r.label), k)
        if r.auth is not None:
            res_index.setdefault(("A", r.auth), k)

    def resolve(nt):
        if nt.label is not None and ("L", nt.label) in res_index:
            return res_index[("L", nt.label)]
        if nt.auth is not None and ("A", nt.auth) in res_index:
            return res_index[("A", nt.auth)]
        return None

    # distinct input pairs by class, canonical residue pairs
    distinct = {}
    variants = {}  # (class, i, j) -> the Saenger values the pair is listed with (several: listed by two tools)
    canon_partners = {}
    for bp in pairs2d:
        a, b = resolve(bp.nt1), resolve(bp.nt2)
        if a is None or b is None or a == b:
            continue
        if a not in index_of or b not in index_of:
            continue
        i, j, lw = index_of[a], index_of[b], bp.lw.value
        if i > j:
            i, j, lw = j, i, lw[0] + lw[2] + lw[1]
        distinct.setdefault(klass(lw), set()).add((i, j, lw))
        variants.setdefault((klass(lw), i, j), set()).add((lw, bp.saenger.value if bp.saenger is not None else None))
        if bp.saenger is not None:
            canonical = bp.saenger.value in CANON_SAENGER
        else:
            letters = "".join(sorted([s3.residues[a].one_letter_name.upper(), s3.residues[b].one_letter_name.upper()]))
            canonical = bp.lw.value == "cWW" and letters in ("AU", "AT", "CG", "GU")
        if canonical:
            canon_partners.setdefault(i, set()).add(j)
            canon_partners.setdefault(j, set()).add(i)
    info["conflict"] = any(len(v) > 1 for v in canon_partners.values())
    deg = Counter()
    for lw, ps in distinct.items():
        for i, j, _ in ps:
            deg[(lw, i)] += 1
            deg[(lw, j)] += 1
    info["multiplet3"] = any(v >= 3 for v in deg.values())
    info["strands"] = len(strands)

    # BPSEQ
    b = mapping.bpseq
    ent = [(e.index_, e.sequence, e.pair) for e in b.entries]
    if [e[0] for e in ent] != list(range(1, n + 1)):
        out.append(D("C06:bpseq:numbering", f"indices {[e[0] for e in ent][:6]}... for {n} expected positions"))
        return out
    got_seq = "".join(e[1] for e in ent)
    want_seq = "".join(l for l, _ in seq)
    if got_seq != want_seq:
        k = next((i for i, (x, y) in enumerate(zip(got_seq, want_seq)) if x != y), min(len(got_seq), len(want_seq)))
        out.append(D("C06:bpseq:sequence", f"position {k + 1}: {got_seq[k:k + 8]!r} vs expected {want_seq[k:k + 8]!r}"))
        return out
    partner = {e[0]: e[2] for e in ent if e[2] != 0}
    for i, j in partner.items():
        if j == i or partner.get(j) != i:
            out.append(D("C06:bpseq:asymmetric", f"{i}->{j} but {j}->{partner.get(j)}"))
            return out
        if j not in canon_partners.get(i, set()):
            out.append(D("C06:bpseq:pair-not-canonical-input", f"BPSEQ pairs {i}-{j}, which is not a canonical input pair"))
            return out
    for i, ps in canon_partners.items():
        if len(ps) == 1:
            (j,) = ps
            if canon_partners[j] == {i} and partner.get(i) != j:
                out.append(D("C06:bpseq:conflict-free-canonical-pair-dropped", f"canonical pair {i}-{j} conflicts with nothing but is absent"))
                break
    # index map
    for i, (letter, k) in enumerate(seq, start=1):
        r = mapping.bpseq_index_to_residue_map.get(i)
        if (k is None) != (r is None) or (k is not None and r is not s3.residues[k]):
            out.append(D("C06:index-map", f"BPSEQ index {i} maps to {r} instead of residue #{k}"))
            break
    # strands
    ss = mapping.strands_sequences
    if [(c, t) for c, t in ss] != strands:
        out.append(D("C06:strands", f"strand sequences {ss[:3]} vs expected {strands[:3]}"))
        return out
    bp_pairs = sorted((i, j) for i, j in partner.items() if i < j)

    def check_text(tag, text):
        lines = text.split("\n") if text else []
        if len(lines) != 3 * len(strands):
            out.append(D(f"C06:{tag}:shape", f"{len(lines)} lines for {len(strands)} strands"))
            return
        cs, st = "", ""
        for k, (chain, t) in enumerate(strands):
            if lines[3 * k] != f">strand_{chain}":
                out.append(D(f"C06:{tag}:header", f"{lines[3 * k]!r} for chain {chain!r}"))
                return
            if len(lines[3 * k + 1]) != len(lines[3 * k + 2]) or lines[3 * k + 1] != t:
                out.append(D(f"C06:{tag}:strand-slice", f"strand {chain}: sequence/structure {lines[3 * k + 1][:20]!r}/{lines[3 * k + 2][:20]!r} vs {t[:20]!r}"))
                return
            cs += lines[3 * k + 1]
            st += lines[3 * k + 2]
        try:
            dec = sorted((i, j) for i, j, _ in ssref.decode(st))
        except ssref.DecodeError as e:
            out.append(D(f"C06:{tag}:unbalanced", f"{st[:60]!r}: {e}"))
            return
        if dec != bp_pairs:
            out.append(D(f"C06:{tag}:pairs-differ-from-bpseq", f"text encodes {dec[:4]}..., BPSEQ has {bp_pairs[:4]}..."))

    check_text("dot_bracket", mapping.dot_bracket)
    # the library enumerates every ordering of every group of crossing stems (k! per group): asked only where that stays
    # below 50 000 orderings (structures whose helices were broken up by bare bases or abasic sites can exceed it by far)
    alls = mapping.all_dot_brackets if ask_all else []
    if not ask_all:
        pass
    elif not alls:
        out.append(D("C06:all_dot_brackets:empty", "no member"))
    else:
        # the mapped list is the BpSeq's list, member by member (C16 decides what that list must contain)
        base = [d.structure for d in b.all_dot_brackets]
        mapped = ["".join(t.split("\n")[2::3]) for t in alls]
        if mapped != base:
            out.append(D("C06:all_dot_brackets:differs-from-bpseq-list", f"{len(mapped)} mapped notations vs {len(base)} of the BPSEQ; first mapped {mapped[:1]}, first base {base[:1]}"))
    for t in alls[:50]:
        before = len(out)
        check_text("all_dot_brackets", t)
        if len(out) > before:
            break
    # extended dot-bracket
    ext = mapping.extended_dot_bracket
    lines = ext.split("\n") if ext else []
    blocks = []
    cur = None
    for ln in lines:
        if ln.startswith("    >strand_"):
            cur = {"chain": ln[len("    >strand_"):], "seq": None, "rows": []}
            blocks.append(cur)
        elif cur is None:
            out.append(D("C06:extended:shape", f"line {ln[:30]!r} before any strand header"))
            return out
        elif ln.startswith("seq "):
            cur["seq"] = ln[4:]
        else:
            lw, _, row = ln.partition(" ")
            cur["rows"].append((lw, row))
    if [(bk["chain"], bk["seq"]) for bk in blocks] != strands:
        out.append(D("C06:extended:strands", f"{[(bk['chain'], (bk['seq'] or '')[:10]) for bk in blocks][:3]} vs {[(c, t[:10]) for c, t in strands][:3]}"))
        return out
    if blocks:
        nrows = {len(bk["rows"]) for bk in blocks}
        if len(nrows) != 1:
            out.append(D("C06:extended:row-count-differs-between-strands", f"{nrows}"))
            return out
        encoded = {}
        for ri in range(nrows.pop()):
            lws = {bk["rows"][ri][0] for bk in blocks}
            if len(lws) != 1:
                out.append(D("C06:extended:row-class-differs-between-strands", f"{lws}"))
                return out
            lw = lws.pop()
            row = "".join(bk["rows"][ri][1] for bk in blocks)
            if len(row) != n:
                out.append(D("C06:extended:row-length", f"{lw} row has length {len(row)}, sequence {n}"))
                return out
            try:
                dec = [(i, j) for i, j, _ in ssref.decode(row)]
            except ssref.DecodeError as e:
                out.append(D("C06:extended:row-unbalanced", f"{lw} row {row[:60]!r}: {e}"))
                return out
            encoded.setdefault(klass(lw), Counter()).update(dec)
        for lw in set(distinct) | set(encoded):
            want = Counter((i, j) for i, j, _ in distinct.get(lw, set()))
            got = encoded.get(lw, Counter())
            # a pair listed with and without a Saenger class (two listings that are neither exact nor reversed
            # duplicates of each other) may count as one input pair or as two: both readings of "distinct" are accepted
            got = Counter({k: (want[k] if want.get(k, 0) <= v <= len(variants.get((lw, k[0], k[1]), ())) else v) for k, v in got.items()})
            if want != got:
                lost = sorted((want - got).elements())[:3]
                extra = sorted((got - want).elements())[:3]
                kind = "pair-lost" if lost else "pair-invented-or-repeated"
                out.append(D(f"C06:extended:{kind}", f"class {lw}: rows lose {lost}, add {extra} (input has {len(want)} distinct pairs of this class)"))
                break
    elif distinct:
        out.append(D("C06:extended:empty", "no strand block although pairs exist"))
    return out


def relabelled(s3, rel):
    """chains cut into pieces with their own names and number offsets, residues dropped (numbering gaps)"""
    from rnaverif import gen3d

    n = len(s3.residues)
    cuts = {c % n for c in rel.get("cuts", [])}
    # original chain boundaries stay boundaries (a piece never merges two source chains)
    cuts |= {ri for ri in range(1, n) if s3.residues[ri].chain != s3.residues[ri - 1].chain}
    cuts = sorted(cuts - {0})
    drops = {d % n for d in rel.get("drop", [])}
    offsets = rel.get("offsets", [0])
    names = rel.get("names", ["A", "B", "C", "D"])
    bounds = [0] + cuts + [n]
    piece_of = {}
    for k in range(len(bounds) - 1):
        for ri in range(bounds[k], bounds[k + 1]):
            piece_of[ri] = k
    first_number = {}
    for ri, r in enumerate(s3.residues):
        first_number.setdefault((piece_of[ri], r.chain), None)

    runs = rel.get("icode_runs", 0)
    pos_in_piece = {}
    for k in range(len(bounds) - 1):
        kept = [ri for ri in range(bounds[k], bounds[k + 1]) if ri not in drops]
        for p_, ri in enumerate(kept):
            pos_in_piece[ri] = p_

    def ident_fn(ri, chain, number):
        k = piece_of[ri]
        nm = names[k % len(names)] + ("" if k < len(names) else str(k))
        # pieces that share a chain name are kept apart in numbering (no duplicate identities)
        earlier = sum(1 for q in range(k) if names[q % len(names)] + ("" if q < len(names) else str(q)) == nm)
        if runs and ri in pos_in_piece:
            # tRNA / rRNA style numbering: neighbours share a number and differ by insertion code (20, 20A, 20B, 21, ...)
            p_ = pos_in_piece[ri]
            return nm, 1 + p_ // runs + offsets[k % len(offsets)] + 3000 * earlier, (None if p_ % runs == 0 else chr(64 + p_ % runs))
        return nm, number + offsets[k % len(offsets)] + 3000 * earlier

    # a piece must not contain two source chains with clashing numbers: keep only structures
    # whose (new chain, new number, icode) stay unique - checked by the caller
    # residues reduced to their 5' end (P, OP1, OP2, O5', C5' only: partly modelled residues as deposited files have
    # them): present in the structure, but no nucleotide as far as the sequence is concerned - they get no BPSEQ line
    trunc = {t % n for t in rel.get("truncate", [])}
    keep_names = {"P", "OP1", "OP2", "O5'", "C5'"}
    # ... or to base + C1' (bases placed without their backbone): the library's own annotation still pairs them, the
    # sequence does not list them - its own pair list then names a residue without a BPSEQ line
    bare = {t % n for t in rel.get("base_only", [])}
    backbone = {"P", "OP1", "OP2", "OP3", "O1P", "O2P", "O3P", "C2'", "C3'", "C4'", "C5'", "O2'", "O3'", "O4'", "O5'"}

    # ... or to backbone + sugar under a component name of their own (an abasic site such as 3DR): a nucleotide by its
    # atoms, with the one-letter name '?' - it has a BPSEQ line and a place in its strand, both spelt '?'
    abasic = {t % n for t in rel.get("abasic", [])} - trunc - bare
    if n > 200:
        abasic = set()  # structures of up to 200 residues only: on larger ones the library's enumeration of all notations runs for minutes once abasic sites break its helices

    def ak(ri, k):
        name = s3.residues[ri].atoms[k].name
        if ri in trunc:
            return name in keep_names
        if ri in bare:
            return name not in backbone
        if ri in abasic:
            return name in backbone or name == "C1'"
        return True

    out = gen3d.rebuild(s3, keep=set(range(n)) - drops, ident_fn=ident_fn, atom_keep=ak if (trunc or bare or abasic) else None)
    if abasic:
        from rnapolis.common import ResidueAuth, ResidueLabel
        from rnapolis.tertiary import Atom, Residue3D, Structure3D

        idents = set()
        for ri in abasic - drops:
            new = ident_fn(ri, s3.residues[ri].chain, s3.residues[ri].number)
            idents.add((new[0], new[1], new[2] if len(new) >= 3 else s3.residues[ri].icode))
        residues = []
        for r in out.residues:
            if (r.chain, r.number, r.icode) in idents and r.is_nucleotide:
                label = ResidueLabel(r.label.chain, r.label.number, "3DR") if r.label is not None else None
                auth = ResidueAuth(r.auth.chain, r.auth.number, r.auth.icode, "3DR") if r.auth is not None else None
                atoms = tuple(Atom(a.entity_id, label, auth, a.model, a.name, a.x, a.y, a.z, a.occupancy) for a in r.atoms)
                r = Residue3D(label, auth, r.model, "?", atoms)
            residues.append(r)
        out = Structure3D(residues)
    return out


def oracle(case):
    info = case.setdefault("_info", {})
    s3, pairs2d = pairs_for_case(case, info)
    if s3 is None:
        return []
    out = check_mapping(s3, pairs2d, case["find_gaps"], case.get("via_adapter", False), info)
    seen, res = set(), []
    for d in out:
        if d.sig not in seen:
            seen.add(d.sig)
            res.append(d)
    return res


def pairs_for_case(case, info=None):
    """(Structure3D, list of BasePair) described by a case; (None, None) when the case is skipped"""
    info = info if info is not None else {}
    s3 = corpus.structure(case["file"])
    if case.get("relabel"):
        s3 = relabelled(s3, case["relabel"])
    idents = [(r.chain, r.number, r.icode) for r in s3.residues]
    if len(set(idents)) != len(idents):
        info["skipped"] = True
        return None, None
    if case.get("own_annotation"):
        from rnapolis.annotator import extract_base_interactions

        pairs2d = extract_base_interactions(s3, None).basePairs
    else:
        nts = [k for k, r in enumerate(s3.residues) if r.is_nucleotide]
        if len(nts) < 2:
            info["skipped"] = True
            return None, None
        entries, late = [], []
        for e in case["entries"]:
            others = [k for k, r in enumerate(s3.residues) if not r.is_nucleotide]

            def pick(x):
                if isinstance(x, list) and x[0] == "non-nucleotide":
                    # a residue that IS in the structure but is no nucleotide (truncated residue, ligand): the entry
                    # names an existing residue that has no line in the BPSEQ
                    return others[x[1] % len(others)] if others else nts[x[1] % len(nts)]
                if isinstance(x, list):
                    return x
                return nts[x % len(nts)]

            r1, r2 = pick(e["r1"]), pick(e["r2"])
            if not isinstance(r1, list) and r1 == r2:
                r2 = nts[(e["r2"] + 1) % len(nts)]
                if r1 == r2:
                    continue
            entries.append({"r1": r1, "r2": r2, "lw": e["lw"], "saenger": case.get("saenger", False)})
            if case.get("naming"):
                entries[-1]["naming"] = case["naming"][len(entries) % len(case["naming"])]
            if e.get("dup") in ("saenger-twin", "saenger-twin-last"):
                # the pair listed a second time by another tool: same residues and class, Saenger class given by one
                # listing and not by the other (lists merged from two annotators); next to the first copy or at the end
                twin = dict(entries[-1], saenger=not entries[-1]["saenger"])
                if e["dup"] == "saenger-twin":
                    entries.append(twin)
                else:
                    late.append(twin)
            if e.get("dup") == "exact":
                entries.append(dict(entries[-1]))
            elif e.get("dup") == "reverse":
                lw = e["lw"]
                entries.append({"r1": r2, "r2": r1, "lw": lw[0] + lw[2] + lw[1], "saenger": case.get("saenger", False), "naming": entries[-1].get("naming")})
        entries += late
        pairs2d = build_pairs(s3, entries)
    return s3, pairs2d


def classify(case):
    info = case.get("_info", {})
    labs = []
    if info.get("conflict"):
        labs.append("canonical-conflict")
    if info.get("multiplet3"):
        labs.append("multiplet>=3")
    if info.get("strands", 0) >= 2:
        labs.append("strands>=2")
    if case["find_gaps"]:
        labs.append("find_gaps")
    if case.get("via_adapter"):
        labs.append("via-adapter")
    if case.get("own_annotation"):
        labs.append("own-annotation")
    if (case.get("relabel") or {}).get("abasic"):
        labs.append("abasic-sites-with-letter-?")
    if case.get("relabel"):
        labs.append("relabelled-chains-and-numbers")
    if case.get("naming"):
        labs.append("entries-named-by-" + "/".join(str(x) for x in case["naming"]))
    if info.get("skipped"):
        labs.append("skipped")
    nt = bool(info.get("conflict") or info.get("multiplet3") or info.get("strands", 0) >= 2)
    return nt, labs


def to_json(case):
    return {k: v for k, v in case.items() if not k.startswith("_")}


def st_cases(files):
    from hypothesis import strategies as st

    lw = st.sampled_from(["cWW", "cWW", "cWW", "tHS", "tHS", "cWH", "tWW", "cSS", "tSH", "cHW", "tWH", "cWS"])

    @st.composite
    def build(draw):
        fn = draw(st.sampled_from(files))
        hubs = draw(st.lists(st.integers(0, 400), min_size=0, max_size=3))
        entries = []
        # multiplets / conflicts around hubs
        for h in hubs:
            klass = draw(lw)
            for _ in range(draw(st.integers(2, 5))):
                entries.append({"r1": h, "r2": draw(st.integers(0, 400)), "lw": klass if draw(st.integers(0, 3)) else draw(lw),
                                "dup": draw(st.sampled_from([None, None, "exact", "reverse", "saenger-twin", "saenger-twin-last"]))})
        for _ in range(draw(st.integers(0, 12))):
            r1 = draw(st.one_of(st.integers(0, 400), st.tuples(st.just("absent"), st.integers(0, 5)).map(list))) if draw(st.integers(0, 7)) == 0 else draw(st.integers(0, 400))
            entries.append({"r1": r1, "r2": draw(st.integers(0, 400)), "lw": draw(lw),
                            "dup": draw(st.sampled_from([None, None, None, "exact", "reverse", "saenger-twin-last"]))})
        order = draw(st.permutations(list(range(len(entries))))) if entries else []
        case = {"file": fn, "entries": [entries[k] for k in order], "find_gaps": draw(st.booleans()), "via_adapter": draw(st.booleans()),
                "saenger": draw(st.booleans())}
        # one naming convention per list, as a list written by one tool has
        case["naming"] = draw(st.sampled_from([None, None, ["auth-only"], ["label-only"], ["foreign-label"], ["residue3d-of-another-object"]]))
        if draw(st.booleans()):
            case["relabel"] = {
                "cuts": draw(st.lists(st.integers(1, 400), max_size=3)),
                "drop": draw(st.lists(st.integers(0, 400), max_size=4)),
                "offsets": draw(st.lists(st.sampled_from([0, 0, 1, 50, 100, -30, 1000]), min_size=1, max_size=4)),
                "icode_runs": draw(st.sampled_from([0, 0, 0, 2, 3])),
                "truncate": draw(st.lists(st.integers(0, 400), max_size=3)),
                "abasic": draw(st.sampled_from([[], [], [5], [2, 9], [0, 7, 8], [11, 30, 31, 60]])),
                "names": draw(st.sampled_from([["A", "B", "C", "D"], ["B", "A", "D", "C"], ["X", "X2", "Y", "Z"], ["A", "A", "B", "B"],
                                                # a chain id that comes back after another chain (ligand-like nucleotides
                                                # or HETATM residues listed after the other chains): two strands, one name
                                                ["A", "B", "A", "B"], ["A", "B", "A", "C"], ["B", "A", "B", "A"]])),
            }
        return case

    return build()


QUICK_FILES = ["1HMH_1_E.cif", "6INQ.cif", "1DFU_1_M-N.cif", "4WTI_1_T-P.cif", "1E7K_1_C.cif", "184D.cif", "1A1T_1_B.cif", "488d.pdb"]


def plan(tier, seed):
    if tier == "quick":
        specs = [{"kind": "lists", "files": QUICK_FILES, "examples": 100, "seed": seed * 1000 + k} for k in range(16)]
        specs += [{"kind": "own", "files": [f]} for f in QUICK_FILES + ["1ehz-assembly-1.cif"]]
    else:
        files = [f for f in corpus.SMALL + corpus.MEDIUM + ["4qln.cif", "6g90_1.cif"] if f != "1gid.cif.gz"]
        specs = [{"kind": "lists", "files": files, "examples": 3000, "seed": seed * 1000 + k} for k in range(16)]
        specs += [{"kind": "own", "files": [f]} for f in corpus.all_files()]
    return specs


def run_shard(spec) -> ShardResult:
    res = ShardResult()
    files = [f for f in spec["files"] if f in corpus.all_files()]
    if spec["kind"] == "lists":
        run_hypothesis(PROP_ID, st_cases(files), oracle, seed=spec["seed"], max_examples=spec["examples"], result=res,
                       to_json=to_json, classify=classify, sample_cap=1)
    else:
        for f in files:
            for fg in (False, True):
                for via in (False, True):
                    # the same with every seventh / every fifth residue reduced to base + C1' (own annotation over a
                    # structure some of whose paired bases are no nucleotides)
                    for stride in (7, 5):
                        case = {"file": f, "own_annotation": True, "find_gaps": fg, "via_adapter": via,
                                "relabel": {"base_only": list(range(stride - 2, 400, stride))}}
                        check_case(PROP_ID, oracle, case, res, to_json=to_json)
                        nt, labs = classify(case)
                        res.note_case(to_json(case), nt, labs + ["own-annotation-with-bare-bases"], sample_cap=1)
                    case = {"file": f, "own_annotation": True, "find_gaps": fg, "via_adapter": via}
                    check_case(PROP_ID, oracle, case, res, to_json=to_json)
                    nt, labs = classify(case)
                    res.note_case(to_json(case), nt, labs)
                    # ... and with every ninth residue an abasic site (backbone and sugar under the name 3DR, letter '?')
                    if len(corpus.structure(f).residues) <= 200:
                        # (larger structures left out: with forty abasic sites their enumeration of all notations runs for minutes)
                        case = {"file": f, "own_annotation": True, "find_gaps": fg, "via_adapter": via, "relabel": {"abasic": list(range(4, 400, 9))}}
                        check_case(PROP_ID, oracle, case, res, to_json=to_json)
                        nt, labs = classify(case)
                        res.note_case(to_json(case), nt, labs + ["own-annotation-with-abasic-sites"], sample_cap=1)
    res.exhaustive = False
    return res


def replay(case):
    return oracle(dict(case))
