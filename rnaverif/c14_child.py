"""Child of the C14 determinism check: computes SHA-256 digests of every output
artefact for a list of inputs, twice in the same interpreter.  Run as

    PYTHONHASHSEED=<s> python c14_child.py spec.json out.json [--full KEY]

spec = {"inputs": [{"id":..., "kind":"file"|"bpseq", "path"|"text":...}], "workdir": ...}
"""
import contextlib
import hashlib
import io
import json
import logging
import os
import sys
import warnings

logging.disable(logging.CRITICAL)
warnings.filterwarnings("ignore")


def h(b):
    if isinstance(b, str):
        b = b.encode()
    return hashlib.sha256(b).hexdigest()


def artefacts_file(path, workdir, tag):
    import rnapolis.annotator as annotator
    from rnapolis.parser import read_3d_structure
    from rnapolis.parser_v2 import can_write_pdb, parse_cif_atoms, parse_pdb_atoms, write_cif, write_pdb
    from rnapolis.tertiary import Mapping2D3D

    out = {}
    with open(path) as f:
        s3 = read_3d_structure(f, None)
    s2, dbs = annotator.extract_secondary_structure(s3, None, False, True)
    bi = s2.baseInteractions
    out["interactions"] = repr((bi.basePairs, bi.stackings, bi.baseRiboseInteractions, bi.basePhosphateInteractions))
    jp = os.path.join(workdir, f"{tag}.json")
    cp = os.path.join(workdir, f"{tag}.csv")
    annotator.write_json(jp, s2)
    annotator.write_csv(cp, s2)
    out["json"] = open(jp, "rb").read()
    out["csv"] = open(cp, "rb").read()
    out["bpseq"] = s2.bpseq
    out["dot_bracket"] = s2.dotBracket
    out["extended"] = s2.extendedDotBracket
    out["all_dot_brackets"] = "\n--\n".join(dbs)
    out["elements"] = "\n".join(str(e) for part in (s2.stems, s2.singleStrands, s2.hairpins, s2.loops) for e in part)
    out["n_all"] = len(dbs)
    out["n_bp"] = len(bi.basePairs)
    out["n_st"] = len(bi.stackings)
    out["n_bphbr"] = len(bi.baseRiboseInteractions) + len(bi.basePhosphateInteractions)
    # the JSON of ONE result object written before (first pass) and after (second pass) its stems were used for the
    # PyMOL script and the stem tables' helpers: reading a result must not change what is written for it
    m0 = Mapping2D3D(s3, bi.basePairs, bi.stackings, False)
    if tag.endswith("_1"):
        out["pml"] = annotator.generate_pymol_script(m0, s2.stems)
        with contextlib.suppress(Exception):
            m0.bpseq.without_isolated()
    annotator.write_json(jp, s2)
    out["json_before_or_after_pml"] = open(jp, "rb").read()
    m = Mapping2D3D(s3, bi.basePairs, bi.stackings, True)
    out["gaps_dot_bracket"] = m.dot_bracket
    out["gaps_all"] = "\n--\n".join(m.all_dot_brackets)
    # command-line tool
    argv = sys.argv
    buf = io.StringIO()
    try:
        stems_csv, inter_csv = os.path.join(workdir, f"{tag}.stems.csv"), os.path.join(workdir, f"{tag}.interstem.csv")
        sys.argv = ["annotator", path, "-a", "-c", cp + ".cli", "-j", jp + ".cli", "-b", os.path.join(workdir, f"{tag}.bpseq"),
                    "--stems-csv", stems_csv, "--inter-stem-csv", inter_csv]
        with contextlib.redirect_stdout(buf):
            annotator.main()
    finally:
        sys.argv = argv
    out["cli_stdout"] = buf.getvalue()
    # the per-structure stem tables name the input file in their first column: the name given on the command line
    # (written INPUT here, since variant files carry the process id in theirs)
    base = os.path.basename(path)
    stem_name = base.rsplit(".", 1)[0]
    for key, pth in (("cli_stems_csv", stems_csv), ("cli_inter_stem_csv", inter_csv)):
        if os.path.exists(pth):
            out[key] = open(pth).read().replace(base, "INPUT").replace(stem_name, "INPUT")
            os.remove(pth)
    out["cli_json"] = open(jp + ".cli", "rb").read()
    out["cli_csv"] = open(cp + ".cli", "rb").read()
    # the other command-line tools on the same input
    def run_tool(mod, args):
        b = io.StringIO()
        old = sys.argv
        try:
            sys.argv = [mod.__name__.rsplit(".", 1)[-1]] + args
            with contextlib.redirect_stdout(b), contextlib.redirect_stderr(io.StringIO()):
                try:
                    mod.main()
                except SystemExit:
                    pass
        finally:
            sys.argv = old
        return b.getvalue()

    import rnapolis.clashfinder as clashfinder
    import rnapolis.motif_extractor as motif_extractor
    import rnapolis.splitter as splitter

    out["clashfinder_stdout"] = run_tool(clashfinder, [path, "--enable-molprobity-mode", "--ignore-occupancy"])
    # external-tool adapter on an FR3D-style listing derived from the structure itself (every nucleotide with the
    # second next one, labels cycling through the families)
    import rnapolis.adapter as adapter

    nts = [r for r in s3.residues if r.is_nucleotide and r.auth is not None]
    labels = ["cWW", "tHS", "s35", "s55", "0BPh", "7BR", "perp", "ncWWa", "s33", "cSH"]
    lines = []
    for k in range(0, max(0, len(nts) - 2)):
        a, b = nts[k].auth, nts[k + 2].auth
        lines.append(f"XXXX|1|{a.chain}|{a.name}|{a.number}|||{a.icode or ''}\t{labels[k % len(labels)]}\tXXXX|1|{b.chain}|{b.name}|{b.number}|||{b.icode or ''}\t0")
    if lines and all("|" not in (r.auth.chain + r.auth.name) and "\t" not in r.auth.chain for r in nts):
        lp = os.path.join(workdir, f"{tag}.fr3d.txt")
        with open(lp, "w") as f:
            f.write("\n".join(lines) + "\n")
        aj, ac = os.path.join(workdir, f"{tag}.adapter.json"), os.path.join(workdir, f"{tag}.adapter.csv")
        out["adapter_stdout"] = run_tool(adapter, [path, "--external", lp, "--tool", "fr3d", "--json", aj, "--csv", ac, "-a"])
        for key, pth in (("adapter_json", aj), ("adapter_csv", ac)):
            if os.path.exists(pth):
                out[key] = open(pth, "rb").read()
                os.remove(pth)
        with contextlib.suppress(OSError):
            os.remove(lp)
    bp = os.path.join(workdir, f"{tag}.tool.bpseq")
    with open(bp, "w") as f:
        f.write(s2.bpseq)
    out["motif_extractor_stdout"] = run_tool(motif_extractor, ["--bpseq", bp])
    sd = os.path.join(workdir, f"{tag}.split")
    run_tool(splitter, ["-o", sd, "-f", "keep", path])
    parts = []
    if os.path.isdir(sd):
        for fn in sorted(os.listdir(sd))[:3]:
            parts.append(fn.replace(os.path.basename(path).rsplit(".", 1)[0], "INPUT") + "\n" + open(os.path.join(sd, fn)).read())
        import shutil
        shutil.rmtree(sd, ignore_errors=True)
    out["splitter_files"] = "\n====\n".join(parts)
    # the same split written as PDB (tables that do not fit the PDB limits are renamed by fit_to_pdb on the way)
    sd2 = os.path.join(workdir, f"{tag}.splitpdb")
    run_tool(splitter, ["-o", sd2, "-f", "PDB", path])
    parts = []
    if os.path.isdir(sd2):
        for fn in sorted(os.listdir(sd2))[:3]:
            parts.append(fn.replace(os.path.basename(path).rsplit(".", 1)[0], "INPUT") + "\n" + open(os.path.join(sd2, fn)).read())
        import shutil
        shutil.rmtree(sd2, ignore_errors=True)
    out["splitter_pdb_files"] = "\n====\n".join(parts)
    with contextlib.suppress(OSError):
        os.remove(bp)
    # atom table writers
    with open(path) as f:
        table = parse_pdb_atoms(f) if path.endswith(".pdb") else parse_cif_atoms(f)
    out["write_cif"] = write_cif(table)
    if can_write_pdb(table):
        out["write_pdb"] = write_pdb(table)
    else:
        from rnapolis.parser_v2 import fit_to_pdb

        try:
            out["fit_to_pdb_then_write_pdb"] = write_pdb(fit_to_pdb(table))
        except ValueError as e:
            out["fit_to_pdb_then_write_pdb"] = "refused: " + str(e)
        except Exception as e:  # whatever it does, it must do the same in every interpreter
            out["fit_to_pdb_then_write_pdb"] = f"raised {type(e).__name__}"
    for p in (jp, cp, jp + ".cli", cp + ".cli", os.path.join(workdir, f"{tag}.bpseq")):
        with contextlib.suppress(OSError):
            os.remove(p)
    return out


def artefacts_mapping(case):
    """Mapping2D3D over a drawn pair list (multiplets, conflicts, duplicates) on a corpus structure"""
    from rnapolis.tertiary import Mapping2D3D
    from rnaverif.props import c06

    s3, pairs2d = c06.pairs_for_case(case)
    if s3 is None:
        return {"skipped": "1"}
    m = Mapping2D3D(s3, pairs2d, [], case["find_gaps"])
    out = {"bpseq": str(m.bpseq), "dot_bracket": m.dot_bracket, "extended": m.extended_dot_bracket,
           "all_dot_brackets": "\n--\n".join(m.all_dot_brackets), "base_pairs": repr([(str(b.nt1_3d), str(b.nt2_3d), b.lw.value) for b in m.base_pairs])}
    out["n_all"] = len(m.all_dot_brackets)
    return out


def artefacts_bpseq(text):
    from rnapolis.common import BpSeq

    b = BpSeq.from_string(text)
    out = {}
    out["str"] = str(b)
    out["dot_bracket"] = str(b.dot_bracket)
    out["fcfs"] = str(b.fcfs)
    alls = b.all_dot_brackets
    out["all_dot_brackets"] = "\n--\n".join(str(d) for d in alls)
    out["n_all"] = len(alls)
    out["elements"] = "\n".join(str(e) for part in b.elements for e in part)
    out["without_pseudoknots"] = str(b.without_pseudoknots())
    out["without_isolated"] = str(b.without_isolated())
    return out


def main():
    spec = json.load(open(sys.argv[1]))
    full_key = None
    if "--full" in sys.argv:
        full_key = sys.argv[sys.argv.index("--full") + 1]
    workdir = spec["workdir"]
    os.makedirs(workdir, exist_ok=True)
    result = {}
    for inp in spec["inputs"]:
        rec = {"passes": [], "meta": {}}
        for rep in range(2):
            try:
                if inp["kind"] == "file":
                    arts = artefacts_file(inp["path"], workdir, f"{os.getpid()}_{rep}")
                elif inp["kind"] == "filetext":
                    vp = os.path.join(workdir, f"variant_{os.getpid()}.{inp['ext']}")
                    with open(vp, "w") as f:
                        f.write(inp["text"])
                    try:
                        arts = artefacts_file(vp, workdir, f"{os.getpid()}_{rep}")
                    finally:
                        with contextlib.suppress(OSError):
                            os.remove(vp)
                elif inp["kind"] == "mapping":
                    arts = artefacts_mapping(inp["case"])
                else:
                    arts = artefacts_bpseq(inp["text"])
            except Exception as exc:  # reported by the parent as a crash discrepancy
                import traceback
                tb = traceback.extract_tb(exc.__traceback__)
                loc = "?"
                for fr in tb:
                    if "/rnapolis/" in fr.filename:
                        loc = f"{os.path.basename(fr.filename)}:{fr.name}"
                rec["error"] = f"{type(exc).__name__}@{loc}: {str(exc)[:200]}"
                break
            meta = {k: arts.pop(k) for k in list(arts) if k.startswith("n_")}
            rec["meta"] = meta
            if full_key and rep == 0 and full_key in arts:
                v = arts[full_key]
                rec["full"] = v.decode("utf-8", "replace") if isinstance(v, bytes) else v
            rec["passes"].append({k: h(v) for k, v in arts.items()})
        result[inp["id"]] = rec
    json.dump(result, open(sys.argv[2], "w"))


if __name__ == "__main__":
    main()
