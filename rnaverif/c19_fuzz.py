"""atheris (libFuzzer) target for C19: FR3D listing import on fuzzer-generated text.
Oracle inside the target: never raises; when every number field is decidable, the number of imported interactions
equals the number of lines with >=3 tab fields and two well-formed unit ids, and each is filed as the reference says.
usage: python c19_fuzz.py [libFuzzer flags] CORPUS_DIR ...   (crash inputs are written by libFuzzer as crash-*)"""
import logging
import os
import re
import sys
import tempfile

HERE = os.path.dirname(os.path.dirname(os.path.abspath(__file__)))
sys.path.append(os.path.join(HERE, ".deps"))
logging.disable(logging.CRITICAL)

import atheris  # noqa: E402

with atheris.instrument_imports(include=["rnapolis.adapter"]):
    import rnapolis.adapter as adapter  # noqa: E402

from rnaverif.props import c19  # noqa: E402

ASCII_NUM = re.compile(r"-?[0-9]+\Z")
TMP = tempfile.NamedTemporaryFile("w", suffix=".txt", delete=False, dir=os.environ.get("C19_FUZZ_TMP") or None)
TMP.close()


def decidable(text):
    """False when some candidate number field is neither plain ASCII -?[0-9]+ nor free of any digit-like character"""
    for raw in text.replace("\r\n", "\n").replace("\r", "\n").split("\n"):
        line = raw.strip()
        if not line or line.startswith("#"):
            continue
        parts = line.split("\t")
        if len(parts) < 3:
            continue
        for u in (parts[0], parts[2]):
            f = u.split("|")
            if len(f) >= 5 and not ASCII_NUM.match(f[4]) and any(ch.isdigit() or ch.isnumeric() or ch in "+-_ " or ch.isspace() for ch in f[4]):
                return False
    return True


def TestOneInput(data):
    text = data.decode("utf-8", "replace")
    if "\x00" in text:
        return
    with open(TMP.name, "w", newline="") as f:
        f.write(text)
    case = {"kind": "listing", "text": text.replace("\r\n", "\n").replace("\r", "\n")}
    if decidable(text):
        ds = c19.oracle_listing_on_file(TMP.name, case["text"])
    else:
        adapter.parse_fr3d_output(TMP.name)  # must not raise
        ds = []
    if ds:
        raise AssertionError("C19 oracle: " + "; ".join(d.sig + " " + d.what[:200] for d in ds))


if __name__ == "__main__":
    atheris.Setup(sys.argv, TestOneInput)
    atheris.Fuzz()
