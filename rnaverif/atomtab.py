"""Atom tables: Hypothesis generator, two independent emitters (PDB fixed columns,
mmCIF atom_site loop) and two independent decoders (column slicer, CIF tokenizer).
Shares no code with rnapolis or with the `mmcif` package.

An atom is a dict with the 16 logical fields
  record, serial, name, altloc, resname, chain, resseq, icode, x, y, z, occ, bfac, element, charge, model
altloc / icode / element: "" when absent; charge: int (0 = none).
"""

from __future__ import annotations

import re
from typing import Dict, List, Optional

FIELDS = ["record", "serial", "name", "altloc", "resname", "chain", "resseq", "icode", "x", "y", "z", "occ",
          "bfac", "element", "charge", "model"]

NUC_ATOMS = {
    "backbone": ["P", "OP1", "OP2", "O5'", "C5'", "C4'", "O4'", "C3'", "O3'", "C2'", "O2'", "C1'"],
    "A": ["N9", "C8", "N7", "C5", "C6", "N6", "N1", "C2", "N3", "C4"],
    "G": ["N9", "C8", "N7", "C5", "C6", "O6", "N1", "C2", "N2", "N3", "C4"],
    "C": ["N1", "C2", "O2", "N3", "C4", "N4", "C5", "C6"],
    "U": ["N1", "C2", "O2", "N3", "C4", "O4", "C5", "C6"],
}
MODIFIED_NAMES = {"A": ["1MA", "6MZ", "A5", "RA", "ADE", "A2M"], "G": ["2MG", "M2G", "7MG", "OMG", "YYG", "GUA", "G3"],
                  "C": ["5MC", "OMC", "CYT", "RC", "C5"], "U": ["PSU", "H2U", "5MU", "4SU", "URA", "U3"]}
ODD_NAMES = ["H5''", "1H5'", "HO2'", "H2'", "HO5'", "CA", "CB", "N", "O", "OXT", "FE", "MG", "ZN", "NA", "K", "CL",
             "C5M", "O1P", "O2P", "H1", "H21", "H22", "2HN4", "S4", "SE"]


def element_of(name: str) -> str:
    if name in ("FE", "MG", "ZN", "NA", "CL", "SE"):
        return name
    if name == "CA":
        return "C"
    for ch in name:
        if ch.isalpha():
            return ch
    return "X"


# ---------------------------------------------------------------------------
# PDB emitter / decoder (fixed columns)


def pdb_charge(ch: int) -> str:
    if not ch:
        return "  "
    return f"{abs(ch)}{'+' if ch > 0 else '-'}"


def pdb_atom_line(a: dict) -> str:
    name = a["name"]
    el = a["element"]
    if len(name) >= 4 or len(el) == 2:
        nm = name.ljust(4)
    else:
        nm = " " + name.ljust(3)
    line = (
        f"{a['record']:<6}{a['serial']:>5} {nm}{(a['altloc'] or ' '):1}{a['resname']:>3} {a['chain']:1}"
        f"{a['resseq']:>4}{(a['icode'] or ' '):1}   {a['x']:8.3f}{a['y']:8.3f}{a['z']:8.3f}{a['occ']:6.2f}{a['bfac']:6.2f}"
        f"          {el:>2}{pdb_charge(a['charge'])}"
    )
    assert len(line) == 80, (len(line), line)
    return line


def emit_pdb(atoms: List[dict], always_model: bool = False) -> str:
    out = []
    models = []
    for a in atoms:
        if a["model"] not in models:
            models.append(a["model"])
    multi = always_model or len(models) > 1
    for m in models:
        if multi:
            out.append(f"MODEL     {m:>4}".ljust(80))
        prev = None
        ms = [a for a in atoms if a["model"] == m]
        for k, a in enumerate(ms):
            if prev is not None and prev["chain"] != a["chain"]:
                out.append(f"TER   {'':5}      {prev['resname']:>3} {prev['chain']:1}{prev['resseq']:>4}{(prev['icode'] or ' '):1}".ljust(80))
            out.append(pdb_atom_line(a))
            prev = a
        if prev is not None:
            out.append(f"TER   {'':5}      {prev['resname']:>3} {prev['chain']:1}{prev['resseq']:>4}{(prev['icode'] or ' '):1}".ljust(80))
        if multi:
            out.append("ENDMDL".ljust(80))
    out.append("END".ljust(80))
    return "\n".join(out) + "\n"


def decode_pdb_charge(s: str) -> Optional[int]:
    s = s.strip()
    if not s:
        return 0
    m = re.fullmatch(r"(\d)([+-])", s)
    if m:
        return int(m.group(1)) * (1 if m.group(2) == "+" else -1)
    m = re.fullmatch(r"([+-])(\d)", s)
    if m:
        return int(m.group(2)) * (1 if m.group(1) == "+" else -1)
    return None


def decode_pdb(text: str) -> Dict[str, list]:
    """column slicer; returns {'atoms': [...], 'records': [(kind, line)], 'problems': [...]}"""
    atoms, records, problems = [], [], []
    model = 1
    for ln, line in enumerate(text.split("\n")):
        if line == "" and ln == len(text.split("\n")) - 1:
            continue
        kind = line[:6].strip()
        records.append((kind, line))
        if kind == "MODEL":
            try:
                model = int(line[10:14])
            except ValueError:
                problems.append(f"line {ln + 1}: MODEL number unreadable: {line!r}")
        elif kind in ("ATOM", "HETATM"):
            if len(line) != 80:
                problems.append(f"line {ln + 1}: {kind} record is {len(line)} columns, not 80")
            try:
                atoms.append({
                    "record": kind, "serial": int(line[6:11]), "name": line[12:16].strip(), "altloc": line[16].strip(),
                    "resname": line[17:20].strip(), "chain": line[21], "resseq": int(line[22:26]),
                    "icode": line[26].strip(), "x": float(line[30:38]), "y": float(line[38:46]), "z": float(line[46:54]),
                    "occ": float(line[54:60]), "bfac": float(line[60:66]), "element": line[76:78].strip(),
                    "charge": decode_pdb_charge(line[78:80]), "model": model,
                    "_raw": line,
                })
                if line[11] != " " or line[20] != " " or line[27:30] != "   " or line[66:76].strip():
                    problems.append(f"line {ln + 1}: non-blank filler column: {line!r}")
                a = atoms[-1]
                if line[6:11] != str(a["serial"]).rjust(5) or line[22:26] != str(a["resseq"]).rjust(4) or \
                        line[76:78] != a["element"].rjust(2) or line[17:20] != a["resname"].rjust(3):
                    problems.append(f"line {ln + 1}: serial / residue name / residue number / element not right-justified in its columns: {line!r}")
            except (ValueError, IndexError) as e:
                problems.append(f"line {ln + 1}: field does not sit in its columns ({e}): {line!r}")
        elif kind == "TER":
            if len(line) != 80:
                problems.append(f"line {ln + 1}: TER record is {len(line)} columns, not 80")
    return {"atoms": atoms, "records": records, "problems": problems}


# ---------------------------------------------------------------------------
# mmCIF emitter / tokenizer

CIF_ITEMS = ["group_PDB", "id", "type_symbol", "label_atom_id", "label_alt_id", "label_comp_id", "label_asym_id",
             "label_entity_id", "label_seq_id", "pdbx_PDB_ins_code", "Cartn_x", "Cartn_y", "Cartn_z", "occupancy",
             "B_iso_or_equiv", "pdbx_formal_charge", "auth_seq_id", "auth_comp_id", "auth_asym_id", "auth_atom_id",
             "pdbx_PDB_model_num"]


def cif_quote(v: str) -> str:
    if v == "":
        raise ValueError("empty CIF value")
    special = v[0] in "_#$'\"[];" or any(c.isspace() for c in v) or v.lower() in ("loop_", "stop_", "global_") or \
        v.lower().startswith(("data_", "save_")) or v in ("?", ".")
    if "'" in v or '"' in v or special:
        if "'" not in v:
            return f"'{v}'"
        if '"' not in v:
            return f'"{v}"'
        return None  # needs a text block
    return v


def label_view(atoms: List[dict]) -> List[dict]:
    """the same atoms identified the way a reader must identify them when the author items are absent:
    number = label_seq_id as emit_cif writes it (running index per chain), no insertion code"""
    seq, counters, out = {}, {}, []
    for a in atoms:
        key = (a["chain"], a["resseq"], a["icode"])
        if key not in seq:
            counters[a["chain"]] = counters.get(a["chain"], 0) + 1
            seq[key] = counters[a["chain"]]
        b = dict(a)
        b["resseq"], b["icode"] = seq[key], ""
        out.append(b)
    return out


def cif_dialect_items(dialect: Optional[dict]) -> List[str]:
    """item list of a dialect: {'drop': [optional items left out], 'order': permutation seed or None}"""
    items = list(CIF_ITEMS)
    if dialect:
        items = [it for it in items if it not in set(dialect.get("drop", []))]
        seed = dialect.get("order")
        if seed is not None:
            # deterministic permutation from the seed (no RNG of our own state: a pure function of the seed)
            keyed = sorted(range(len(items)), key=lambda k: (hash_int(seed, k), k))
            items = [items[k] for k in keyed]
    return items


def hash_int(seed: int, k: int) -> int:
    import hashlib

    return int.from_bytes(hashlib.sha256(f"{seed}:{k}".encode()).digest()[:8], "big")


def emit_cif(atoms: List[dict], null: str = "?", extra_categories: str = "", label_seq: Optional[dict] = None,
             dialect: Optional[dict] = None) -> str:
    """atom_site loop; `null` is the marker used for absent altloc / icode / charge / element.
    `dialect` leaves out optional items and/or permutes the item order (mmCIF fixes neither)."""
    out = ["data_verif", "#"]
    if extra_categories:
        out.append(extra_categories.rstrip("\n"))
        out.append("#")
    out.append("loop_")
    items = cif_dialect_items(dialect)
    pos = [CIF_ITEMS.index(it) for it in items]
    for it in items:
        out.append(f"_atom_site.{it}")
    # label_seq_id: running index per (chain, residue) in order of appearance, as real files do
    seq = {}
    counters = {}
    for a in atoms:
        key = (a["chain"], a["resseq"], a["icode"])
        if key not in seq:
            counters[a["chain"]] = counters.get(a["chain"], 0) + 1
            seq[key] = counters[a["chain"]]
    if dialect and dialect.get("label_seq") == "author":
        # label_seq_id repeats the author number and the insertion code lives in pdbx_PDB_ins_code only, as Biopython,
        # PyMOL and this library's own write_cif write it (wwPDB files number label_seq_id 1..n instead)
        seq = {key: key[1] for key in seq}
    alias = bool(dialect and dialect.get("label_alias"))

    def lab_atom(nm):
        # label-side names in the remediated / old nomenclature while the author side keeps the names as given
        if not alias:
            return nm
        return {"OP1": "O1P", "OP2": "O2P", "O1P": "OP1", "O2P": "OP2"}.get(nm, nm.replace("'", "*") if "'" in nm else nm)

    def lab_comp(nm):
        return {"A": "ADE", "C": "CYT", "G": "GUA", "U": "URA"}.get(nm, nm) if alias else nm

    ligands = {tuple(k) for k in (dialect or {}).get("ligands", [])}
    chain_order = []
    for a in atoms:
        if a["chain"] not in chain_order:
            chain_order.append(a["chain"])

    def entity(a):
        # with entity tables (see entity_categories): one polymer entity per chain, ligands in a non-polymer entity
        if not (dialect and dialect.get("entities")):
            return "1"
        if (a["chain"], a["resseq"], a["icode"]) in ligands:
            return str(len(chain_order) + 1)
        return str(chain_order.index(a["chain"]) + 1)

    numbers = (dialect or {}).get("numbers")
    row_no = 0

    def num(text, col):
        """the same number in another spelling the CIF grammar allows (dialect 'numbers': an integer phase): decimal
        exponent in either case, an explicit plus sign, further zeros - the value is the one `text` denotes"""
        if numbers is None:
            return text
        how = (row_no + col + numbers) % 5
        v = float(text)
        if how == 1 and abs(v) < 10000:
            return f"{v:.6e}"
        if how == 2 and abs(v) < 10000:
            return f"{v:.6E}".replace("E+0", "E").replace("E-0", "E-")
        if how == 3 and not text.startswith("-"):
            return "+" + text
        if how == 4:
            return text + "00"
        return text

    for a in atoms:
        is_ligand = (a["chain"], a["resseq"], a["icode"]) in ligands
        vals = [
            "HETATM" if is_ligand else a["record"], str(a["serial"]), a["element"] or null, lab_atom(a["name"]), a["altloc"] or null, lab_comp(a["resname"]), a["chain"], entity(a),
            "." if is_ligand else str(seq[(a["chain"], a["resseq"], a["icode"])]), a["icode"] or null,
            num(f"{a['x']:.3f}", 0), num(f"{a['y']:.3f}", 1), num(f"{a['z']:.3f}", 2), (num(f"{a['occ']:.2f}", 3) if a["occ"] is not None else null), f"{a['bfac']:.2f}",
            (str(a["charge"]) if a["charge"] else null), str(a["resseq"]), a["resname"], a["chain"], a["name"], str(a["model"]),
        ]
        row_no += 1
        vals = [vals[k] for k in pos]
        toks = []
        for v in vals:
            if v in ("?", "."):
                toks.append(v)
            else:
                q = cif_quote(v)
                if q is None:
                    raise ValueError(f"value {v!r} needs a text block")
                toks.append(q)
        out.append(" ".join(toks))
    out.append("#")
    return "\n".join(out) + "\n"


def entity_categories(atoms: List[dict], ligands) -> str:
    """_entity and _entity_poly loops matching emit_cif(..., dialect={'entities': True, 'ligands': ligands}): one
    polyribonucleotide entity per chain whose one-letter sequence follows label_seq_id (N for non-standard names), and
    one non-polymer entity holding the ligand residues"""
    ligands = {tuple(k) for k in ligands}
    chain_order, seqs, seen = [], {}, set()
    for a in atoms:
        if a["chain"] not in chain_order:
            chain_order.append(a["chain"])
        key = (a["chain"], a["resseq"], a["icode"])
        if key not in seen:
            seen.add(key)
            seqs.setdefault(a["chain"], []).append(a["resname"] if a["resname"] in ("A", "C", "G", "U") else "N")
    out = ["loop_", "_entity.id", "_entity.type"]
    for k, ch in enumerate(chain_order):
        out.append(f"{k + 1} polymer")
    out.append(f"{len(chain_order) + 1} non-polymer")
    out += ["#", "loop_", "_entity_poly.entity_id", "_entity_poly.type", "_entity_poly.pdbx_seq_one_letter_code_can"]
    for k, ch in enumerate(chain_order):
        out.append(f"{k + 1} polyribonucleotide {''.join(seqs[ch])}")
    return "\n".join(out)


class CifError(Exception):
    pass


def cif_tokens(text: str):
    """yields (kind, value): kind in 'word' (bare), 'quoted', 'text' (semicolon block)"""
    lines = text.split("\n")
    i = 0
    n = len(lines)
    while i < n:
        line = lines[i]
        if line.startswith(";"):
            buf = [line[1:]]
            i += 1
            while i < n and not lines[i].startswith(";"):
                buf.append(lines[i])
                i += 1
            if i >= n:
                raise CifError("unterminated text block")
            rest = lines[i][1:]
            yield ("text", "\n".join(buf))
            line = rest
            i += 1
            # tokens may follow the closing ';' on the same line
            pos = 0
        else:
            i += 1
        pos = 0
        L = len(line)
        while pos < L:
            c = line[pos]
            if c in " \t\r":
                pos += 1
                continue
            if c == "#":
                break
            if c in "'\"":
                end = pos + 1
                while True:
                    end = line.find(c, end)
                    if end == -1:
                        raise CifError(f"unterminated quote in {line!r}")
                    if end + 1 >= L or line[end + 1] in " \t\r":
                        break
                    end += 1
                yield ("quoted", line[pos + 1:end])
                pos = end + 1
                continue
            end = pos
            while end < L and line[end] not in " \t\r":
                end += 1
            yield ("word", line[pos:end])
            pos = end


def parse_cif(text: str, all_blocks: bool = False):
    """returns ordered list of categories: [(category, [items], [rows])]; key-value categories become a single row.
    With all_blocks=True the categories of the k-th further data block (k >= 1) are listed as '#k/<category>';
    otherwise a second data block is an error for the callers that expect one."""
    cats: Dict[str, dict] = {}
    order = []
    toks = list(cif_tokens(text))
    i = 0
    n = len(toks)
    block = -1
    prefix = ""

    def is_tag(t):
        return t[0] == "word" and t[1].startswith("_")

    def add(cat, item, value):
        if cat not in cats:
            cats[cat] = {"items": [], "rows": [[]], "loop": False}
            order.append(cat)
        cats[cat]["items"].append(item)
        cats[cat]["rows"][0].append(value)

    while i < n:
        k, v = toks[i]
        if k == "word" and v.lower().startswith("data_"):
            i += 1
            block += 1
            if block >= 1:
                if not all_blocks:
                    raise CifError("more than one data block")
                prefix = f"#{block}/"
            continue
        if k == "word" and v.lower() == "loop_":
            i += 1
            tags = []
            while i < n and is_tag(toks[i]):
                tags.append(toks[i][1])
                i += 1
            vals = []
            while i < n and not is_tag(toks[i]) and not (toks[i][0] == "word" and (toks[i][1].lower() == "loop_" or toks[i][1].lower().startswith("data_"))):
                vals.append(toks[i][1])
                i += 1
            if not tags:
                raise CifError("loop_ without tags")
            if len(vals) % len(tags):
                raise CifError(f"loop over {tags[0]}: {len(vals)} values for {len(tags)} items")
            cat = prefix + tags[0][1:].split(".", 1)[0]
            items = [t[1:].split(".", 1)[1] for t in tags]
            rows = [vals[r:r + len(tags)] for r in range(0, len(vals), len(tags))]
            if cat not in cats:
                order.append(cat)
            cats[cat] = {"items": items, "rows": rows, "loop": True}
            continue
        if is_tag(toks[i]):
            if i + 1 >= n:
                raise CifError(f"tag {v} without value")
            cat, item = v[1:].split(".", 1)
            add(prefix + cat, item, toks[i + 1][1])
            i += 2
            continue
        raise CifError(f"unexpected token {v!r}")
    return [(c, cats[c]["items"], cats[c]["rows"]) for c in order]


def decode_cif_atoms(text: str) -> List[dict]:
    """atom_site rows as logical atoms (auth identity preferred, label as fallback)"""
    for cat, items, rows in parse_cif(text):
        if cat != "atom_site":
            continue
        out = []
        for row in rows:
            d = dict(zip(items, row))

            def g(*names):
                for nm in names:
                    v = d.get(nm)
                    if v is not None and v not in ("?", "."):
                        return v
                return ""

            ch = g("pdbx_formal_charge")
            # author identity only when chain, number and residue name are all given (else label identity)
            has_auth = bool(g("auth_asym_id")) and bool(g("auth_seq_id")) and bool(g("auth_comp_id", "label_comp_id"))
            out.append({
                "record": g("group_PDB") or "ATOM", "serial": int(g("id") or 0), "name": g("auth_atom_id", "label_atom_id"),
                "altloc": g("label_alt_id"), "resname": g("auth_comp_id", "label_comp_id"),
                "chain": g("auth_asym_id") if has_auth else g("label_asym_id"),
                "resseq": int((g("auth_seq_id") if has_auth else g("label_seq_id")) or 0),
                "icode": g("pdbx_PDB_ins_code"), "x": float(g("Cartn_x")), "y": float(g("Cartn_y")), "z": float(g("Cartn_z")),
                "occ": float(g("occupancy")) if g("occupancy") else None, "bfac": float(g("B_iso_or_equiv")) if g("B_iso_or_equiv") else None,
                "element": g("type_symbol"), "charge": int(ch) if re.fullmatch(r"[+-]?\d+", ch or "") else (0 if not ch else None),
                "model": int(g("pdbx_PDB_model_num") or 1),
                "_label": (g("label_asym_id"), g("label_seq_id"), g("label_comp_id")),
                "_has_auth": has_auth,
                "_raw_charge": d.get("pdbx_formal_charge"),
            })
        return out
    return []


# ---------------------------------------------------------------------------
# Hypothesis generator


def st_tables(max_models=3, max_chains=3, max_residues=5, max_atoms=8, altlocs=True, clashes=False,
              hetero=True, realistic_nucleotides=False, wide=False, modified=False, shared_positions=False):
    """atom tables within PDB limits, built residue by residue"""
    from hypothesis import strategies as st

    chains_alpha = "ABCDEFGHIJKLMNOPQRSTUVWXYZabcdefghijklmnopqrstuvwxyz0123456789"
    occ = st.sampled_from([1.0, 1.0, 1.0, 0.5, 0.7, 0.3, 0.25, 0.0, 0.65, 0.35])
    bf = st.integers(0, 99999).map(lambda v: v / 100.0)

    @st.composite
    def build(draw):
        nmodels = draw(st.integers(1, max_models))
        nchains = draw(st.integers(1, max_chains))
        chain_ids = draw(st.lists(st.sampled_from(chains_alpha), min_size=nchains, max_size=nchains, unique=True))
        residues = []  # (chain, resseq, icode, resname, record, atom names)
        for ch in chain_ids:
            nres = draw(st.integers(1, max_residues))
            num = draw(st.sampled_from([-20, -3, 0, 1, 1, 1, 5, 98, 997, 9990]))
            prev_icode = ""
            for _ in range(nres):
                step = draw(st.sampled_from([0, 1, 1, 1, 1, 2, 5]))
                if step == 0:
                    # insertion-code run: same number, next letter
                    icode = "A" if not prev_icode else chr(ord(prev_icode) + 1)
                    if icode > "Z":
                        num += 1
                        icode = ""
                else:
                    num += step
                    icode = ""
                if num > 9999:
                    break
                prev_icode = icode
                kind = draw(st.sampled_from((["nuc", "nuc", "nuc", "odd"] if hetero else ["nuc"]) + (["mod"] if modified else [])))
                same_as_previous = step == 0 and icode and residues and residues[-1][0] == ch and residues[-1][3] in ("A", "C", "G", "U") and draw(st.booleans())
                if same_as_previous:
                    # an insertion-code neighbour of the same kind (G10, G10A): the two differ in the code alone
                    kind = "nuc"
                if kind in ("nuc", "mod"):
                    base = residues[-1][3] if same_as_previous else draw(st.sampled_from("ACGU"))
                    if same_as_previous:
                        resname = base
                    elif kind == "mod":
                        # modified / force-field nucleotide names: the atoms of a standard base under a non-standard name
                        resname = draw(st.sampled_from(MODIFIED_NAMES[base]))
                    else:
                        resname = draw(st.sampled_from([base, base, "D" + base if base != "U" else "DT"]))
                    pool = NUC_ATOMS["backbone"] + NUC_ATOMS[base]
                    if realistic_nucleotides:
                        names = list(pool)
                    else:
                        k = draw(st.integers(1, min(max_atoms, len(pool))))
                        names = draw(st.lists(st.sampled_from(pool), min_size=k, max_size=k, unique=True))
                    record = "ATOM" if kind == "nuc" else draw(st.sampled_from(["HETATM", "ATOM"]))
                else:
                    resname = draw(st.sampled_from(["HOH", "MG", "PSU", "5MC", "ALA", "GLY", "NA", "7MG", "OMG"]))
                    k = draw(st.integers(1, 4))
                    names = draw(st.lists(st.sampled_from(ODD_NAMES + NUC_ATOMS["backbone"][:4]), min_size=k, max_size=k, unique=True))
                    record = draw(st.sampled_from(["HETATM", "ATOM"]))
                residues.append((ch, num, icode, resname, record, names))
                if shared_positions and kind in ("nuc", "mod") and draw(st.integers(0, 5)) == 0:
                    # point microheterogeneity: the same position modelled as a second, differently named residue
                    # (conformer A is one nucleotide, conformer B another)
                    other = draw(st.sampled_from([b for b in "ACGU" if b != base]))
                    pool2 = NUC_ATOMS["backbone"] + NUC_ATOMS[other]
                    k2 = draw(st.integers(1, min(max_atoms, len(pool2))))
                    names2 = draw(st.lists(st.sampled_from(pool2), min_size=k2, max_size=k2, unique=True))
                    residues[-1] = residues[-1] + ("A",)
                    residues.append((ch, num, icode, other, record, names2, "B"))
        atoms = []
        GRID = 40
        # (the last two: coordinates of four digits before the point, which fill the eight PDB columns exactly)
        origin = draw(st.sampled_from([(0.0, 0.0, 0.0), (0.0, 0.0, 0.0), (-939.0, 12.0, 500.0), (930.0, -960.0, -30.0),
                                       (1234.0, 5000.0, 9900.0), (9950.0, -30.0, 2500.0)]))
        off = st.integers(-250, 250).map(lambda v: v / 1000.0)
        for m in range(1, nmodels + 1):
            # serial numbers over the whole 5-column range (5-digit serials fill the field next to the record name)
            serial = draw(st.sampled_from([1, 1, 1, 7, 5000, 9990, 10000, 99000]))
            # every atom of a model sits in its own cell of a 1.5 A lattice (+-0.25 A offset):
            # no two atoms come closer than 1.0 A unless planted below
            n_slots = sum(len(e[5]) for e in residues) * 3
            cells = draw(st.lists(st.integers(0, GRID ** 3 - 1), min_size=n_slots, max_size=n_slots, unique=True))
            cell_iter = iter(cells)

            def place():
                c = next(cell_iter)
                i, j, k = c % GRID, (c // GRID) % GRID, c // (GRID * GRID)
                return (round(origin[0] + (i - GRID // 2) * 1.5 + draw(off), 3),
                        round(origin[1] + (j - GRID // 2) * 1.5 + draw(off), 3),
                        round(origin[2] + (k - GRID // 2) * 1.5 + draw(off), 3))

            for entry in residues:
                (ch, num, icode, resname, record, names) = entry[:6]
                conformer = entry[6] if len(entry) > 6 else None
                use_alt = altlocs and conformer is None and draw(st.integers(0, 5)) == 0
                for nm in names:
                    copies = [""]
                    if use_alt and draw(st.booleans()):
                        copies = ["A", "B"] if draw(st.booleans()) else ["A", "B", "C"]
                    occs = None
                    if len(copies) > 1:
                        occs = draw(st.lists(occ, min_size=len(copies), max_size=len(copies)))
                    if conformer is not None:
                        copies = [conformer]
                        occs = [0.6 if conformer == "A" else 0.4]
                    for ci, alt in enumerate(copies):
                        el = element_of(nm)
                        charge = draw(st.sampled_from([0, 0, 0, 0, 1, -1, 2, -2, 3]))
                        x, y, z = place()
                        atoms.append({
                            "record": record, "serial": serial, "name": nm, "altloc": alt, "resname": resname, "chain": ch,
                            "resseq": num, "icode": icode, "x": x, "y": y, "z": z,
                            "occ": occs[ci] if occs else draw(occ), "bfac": draw(bf), "element": el if draw(st.integers(0, 9)) else "",
                            "charge": charge, "model": m,
                        })
                        serial += 1
        if clashes and len(atoms) >= 2 and draw(st.booleans()):
            # plant one isolated close pair: move atom j next to atom i (0.1-0.6 A) within the same model
            i = draw(st.integers(0, len(atoms) - 1))
            same = [k for k in range(len(atoms)) if atoms[k]["model"] == atoms[i]["model"] and k != i
                    and (atoms[k]["chain"], atoms[k]["resseq"], atoms[k]["icode"], atoms[k]["name"]) !=
                    (atoms[i]["chain"], atoms[i]["resseq"], atoms[i]["icode"], atoms[i]["name"])]
            if same:
                j = same[draw(st.integers(0, len(same) - 1))]
                # well inside the 0.5 A limit, and on both sides of it at the resolution of the coordinate columns
                d = draw(st.sampled_from([0.1, 0.2, 0.3, 0.4, 0.45, 0.499, 0.501, 0.55, 0.6]))
                atoms[j]["x"] = round(atoms[i]["x"] + d, 3) if atoms[i]["x"] + d <= 999.999 else round(atoms[i]["x"] - d, 3)
                atoms[j]["y"] = atoms[i]["y"]
                atoms[j]["z"] = atoms[i]["z"]
                rest = [k for k in same if k != j]
                if rest and draw(st.integers(0, 2)) == 0:
                    # three alternative positions on a line (0.2 A and 0.25 A apart, the outer two 0.45 A): the middle
                    # one is the nearest neighbour of both others - a pairwise reading must still compare the outer two
                    k = rest[draw(st.integers(0, len(rest) - 1))]
                    sgn = 1 if atoms[j]["x"] >= atoms[i]["x"] else -1
                    atoms[j]["x"] = round(atoms[i]["x"] + sgn * 0.2, 3)
                    atoms[k]["x"], atoms[k]["y"], atoms[k]["z"] = round(atoms[i]["x"] + sgn * 0.45, 3), atoms[i]["y"], atoms[i]["z"]
                    occs = draw(st.sampled_from([(0.5, 0.2, 0.4), (0.4, 0.2, 0.5), (0.5, 0.3, 0.5), (1.0, 0.5, 0.7)]))
                    atoms[i]["occ"], atoms[j]["occ"], atoms[k]["occ"] = occs
        return atoms

    return build()


def spread(atoms: List[dict], min_dist: float = 0.6) -> bool:
    """True when no two atoms of the same model are closer than min_dist (O(n^2), tables are small)"""
    for i in range(len(atoms)):
        for j in range(i + 1, len(atoms)):
            a, b = atoms[i], atoms[j]
            if a["model"] != b["model"]:
                continue
            d2 = (a["x"] - b["x"]) ** 2 + (a["y"] - b["y"]) ** 2 + (a["z"] - b["z"]) ** 2
            if d2 < min_dist * min_dist:
                return False
    return True
