"""Reference secondary-structure toolkit and generators (shares no code with rnapolis).

A structure is (seq: str, pairs: sorted tuple of (i, j) with 1 <= i < j <= N).
"""

from __future__ import annotations

import itertools
import string
from typing import Dict, Iterable, List, Optional, Sequence, Tuple

OPEN = "([{<" + string.ascii_uppercase
CLOSE = ")]}>" + string.ascii_lowercase
LEVEL_OF = {c: k for k, c in enumerate(OPEN)}
LEVEL_OF.update({c: k for k, c in enumerate(CLOSE)})
IS_OPEN = set(OPEN)
IS_CLOSE = set(CLOSE)
ALPHABET = set(OPEN) | set(CLOSE) | {"."}
MAXLEVELS = 30

SEQ_LETTERS = "ACGUACGUACGUTRYSWKMBDHVNacgu"


class DecodeError(Exception):
    pass


def decode(structure: str) -> List[Tuple[int, int, int]]:
    """(i, j, level) 1-based, per-type stacks; raises DecodeError if unbalanced."""
    stacks: Dict[int, List[int]] = {}
    out = []
    for pos, c in enumerate(structure, start=1):
        if c == ".":
            continue
        if c in IS_OPEN:
            stacks.setdefault(LEVEL_OF[c], []).append(pos)
        elif c in IS_CLOSE:
            st = stacks.get(LEVEL_OF[c])
            if not st:
                raise DecodeError(f"unmatched closing {c!r} at {pos}")
            out.append((st.pop(), pos, LEVEL_OF[c]))
        else:
            raise DecodeError(f"character {c!r} outside the bracket alphabet at {pos}")
    for lev, st in stacks.items():
        if st:
            raise DecodeError(f"unmatched opening of level {lev} at {st[-1]}")
    return sorted(out)


def crossing(p, q) -> bool:
    (a, b), (c, d) = p[:2], q[:2]
    return a < c < b < d or c < a < d < b


def bpseq_text(seq: str, pairs: Iterable[Tuple[int, int]]) -> str:
    partner = {}
    for i, j in pairs:
        partner[i] = j
        partner[j] = i
    return "\n".join(f"{k} {seq[k - 1]} {partner.get(k, 0)}" for k in range(1, len(seq) + 1))


def stems(pairs: Sequence[Tuple[int, int]]) -> List[Tuple[int, int, int]]:
    """maximal runs (i, j, length): (i,j),(i+1,j-1),... all paired."""
    pset = set(pairs)
    out = []
    for i, j in sorted(pset):
        if (i - 1, j + 1) in pset:
            continue
        n = 1
        while (i + n, j - n) in pset and i + n < j - n:
            n += 1
        out.append((i, j, n))
    return out


def stem_conflicts(st: Sequence[Tuple[int, int, int]]) -> Dict[int, set]:
    g: Dict[int, set] = {k: set() for k in range(len(st))}
    for a, b in itertools.combinations(range(len(st)), 2):
        if crossing(st[a], st[b]):
            g[a].add(b)
            g[b].add(a)
    return g


def components(g: Dict[int, set]) -> List[List[int]]:
    seen = set()
    comps = []
    for v in sorted(g):
        if v in seen or not g[v]:
            continue
        comp = []
        todo = [v]
        seen.add(v)
        while todo:
            u = todo.pop()
            comp.append(u)
            for w in sorted(g[u]):
                if w not in seen:
                    seen.add(w)
                    todo.append(w)
        comps.append(sorted(comp))
    return comps


def stem_levels_from_structure(structure: str, st) -> Optional[List[int]]:
    """level of each stem as written (None if a stem is written inconsistently)."""
    levels = []
    for i, j, n in st:
        levs = set()
        for k in range(n):
            a, b = structure[i + k - 1], structure[j - k - 1]
            if a not in IS_OPEN or b not in IS_CLOSE:
                return None
            levs.add(LEVEL_OF[a])
            levs.add(LEVEL_OF[b])
        if len(levs) != 1:
            return None
        levels.append(levs.pop())
    return levels


def score(levels: Sequence[int], st) -> int:
    """(nucleotides on level 0) - sum_k k * (nucleotides on level k); a stem of
    n pairs is counted as n (both the MILP objective and this use pair counts;
    a common factor 2 does not change the optimum)."""
    return sum(n if lev == 0 else -lev * n for lev, (_, _, n) in zip(levels, st))


def is_proper(levels, g) -> bool:
    return all(levels[a] != levels[b] for a in g for b in g[a])


def is_grundy(levels, g) -> bool:
    """every stem on level c has a crossing neighbour on every level < c"""
    for v, nb in g.items():
        have = {levels[w] for w in nb}
        if any(c not in have for c in range(levels[v])):
            return False
    return True


def optimal_score(st, g) -> int:
    """exact optimum by DFS over proper colourings, colour(v) <= deg(v) (an
    optimal assignment can always be taken Grundy, hence colour <= degree)."""
    total = 0
    free = [k for k in range(len(st)) if not g[k]]
    total += sum(st[k][2] for k in free)
    for comp in components(g):
        order = sorted(comp, key=lambda v: -st[v][2])
        best = [None]
        col: Dict[int, int] = {}

        def ub(idx, cur):
            # optimistic: every remaining stem on level 0
            return cur + sum(st[v][2] for v in order[idx:])

        def rec(idx, cur):
            if best[0] is not None and ub(idx, cur) <= best[0]:
                return
            if idx == len(order):
                best[0] = cur
                return
            v = order[idx]
            banned = {col[w] for w in g[v] if w in col}
            for c in range(len(g[v]) + 1):
                if c in banned:
                    continue
                col[v] = c
                rec(idx + 1, cur + (st[v][2] if c == 0 else -c * st[v][2]))
                del col[v]

        rec(0, 0)
        total += best[0]
    return total


def grundy_colourings(comp: List[int], g) -> List[Tuple[int, ...]]:
    """all proper colourings of a component (colours < |comp|) that are Grundy;
    returned as tuples aligned with `comp`."""
    out = []
    col: Dict[int, int] = {}
    k = len(comp)

    def rec(idx):
        if idx == k:
            ok = True
            for v in comp:
                have = {col[w] for w in g[v]}
                if any(c not in have for c in range(col[v])):
                    ok = False
                    break
            if ok:
                out.append(tuple(col[v] for v in comp))
            return
        v = comp[idx]
        banned = {col[w] for w in g[v] if w in col}
        for c in range(min(k, len(g[v]) + 1)):
            if c in banned:
                continue
            col[v] = c
            rec(idx + 1)
            del col[v]

    rec(0)
    return out


def fcfs_levels(st, g) -> List[int]:
    levels = []
    for v in range(len(st)):
        banned = {levels[w] for w in g[v] if w < v}
        c = 0
        while c in banned:
            c += 1
        levels.append(c)
    return levels


# ---------------------------------------------------------------------------
# enumeration of all matchings on 1..n


def all_matchings(n: int):
    """every partial matching (involution) on 1..n as sorted tuple of pairs"""

    def rec(free: Tuple[int, ...]):
        if not free:
            yield ()
            return
        a, rest = free[0], free[1:]
        for m in rec(rest):
            yield m
        for idx, b in enumerate(rest):
            for m in rec(rest[:idx] + rest[idx + 1:]):
                yield ((a, b),) + m

    for m in rec(tuple(range(1, n + 1))):
        yield tuple(sorted(m))


def perfect_matchings(k: int):
    """every perfect matching of 2k endpoints 0..2k-1 (chord diagrams): (2k-1)!! of them"""

    def rec(free: Tuple[int, ...]):
        if not free:
            yield ()
            return
        a, rest = free[0], free[1:]
        for idx, b in enumerate(rest):
            for m in rec(rest[:idx] + rest[idx + 1:]):
                yield ((a, b),) + m

    yield from rec(tuple(range(2 * k)))


def chord_structure(chords, spaced: bool = True, lens=None) -> Tuple[str, tuple]:
    """structure with one stem per chord (stem t, in 5' order of the chords as given, has lens[t] pairs, default 1);
    with spaced=True an unpaired nucleotide sits between consecutive endpoint blocks, so no two stems stack and every
    chord is a stem of its own: k chords = k stems, and the structures of all chord diagrams on k chords realise
    every conflict-graph topology AND every 5'->3' stem order with k stems"""
    k = len(chords)
    lens = list(lens) if lens else [1] * k
    owner = {}
    for t, (a, b) in enumerate(chords):
        owner[a] = t
        owner[b] = t
    pos = 1
    start = {}
    for e in range(2 * k):
        start[e] = pos
        pos += lens[owner[e]] + (1 if spaced else 0)
    n = pos - 1 - (1 if spaced else 0)
    pairs = []
    for t, (a, b) in enumerate(chords):
        for d in range(lens[t]):
            pairs.append((start[a] + d, start[b] + lens[t] - 1 - d))
    return (seq_for(n, k), tuple(sorted(pairs)))


def repeated_motif(chords, hairpins_between: int, copies: int = 2) -> Tuple[str, tuple]:
    """`copies` copies of one chord diagram (one pair per chord, spaced) separated by `hairpins_between` plain
    hairpins: independent groups of crossing stems that share one crossing pattern"""
    k = len(chords)
    pairs = []
    pos = 0
    for c in range(copies):
        for a, b in chords:
            pairs.append((pos + 2 * a + 1, pos + 2 * b + 1))
        pos += 4 * k
        if c < copies - 1:
            for _ in range(hairpins_between):
                pairs.append((pos + 1, pos + 5))
                pos += 6
    n = pos
    return (seq_for(n, k), tuple(sorted(pairs)))


def decoy_texts(n: int):
    """BPSEQ texts of two other structures on the same n positions (a fully nested ladder and adjacent pairs): objects
    built from them AFTER the object under test and kept alive while it is queried - what one object answers must not
    depend on which other objects exist"""
    if n < 2:
        return []
    ladder_pairs = [(i, n + 1 - i) for i in range(1, n // 2 + 1)]
    adjacent = [(i, i + 1) for i in range(1, n, 2)]
    shifted = [(i, i + 2) for i in range(1, n - 1, 4)]
    seq = "N" * n
    return [bpseq_text(seq, ps) for ps in (ladder_pairs, adjacent, shifted)]


def seq_for(n: int, salt: int = 0) -> str:
    return "".join(SEQ_LETTERS[(k * 7 + salt * 3 + (k // 5)) % len(SEQ_LETTERS)] for k in range(n))


# ---------------------------------------------------------------------------
# Hypothesis strategies


def st_structures(max_abstract: int = 8, max_stem: int = 6, max_gap: int = 5, min_abstract: int = 0):
    """blow-up generator: abstract matching on m pairs (any crossing pattern,
    built by construction), each expanded to a stem, with unpaired runs."""
    from hypothesis import strategies as st

    @st.composite
    def build(draw):
        m = draw(st.integers(min_abstract, max_abstract))
        # abstract matching: a permutation of 2m endpoints paired consecutively
        ends = draw(st.permutations(list(range(2 * m)))) if m else []
        apairs = [tuple(sorted((ends[2 * k], ends[2 * k + 1]))) for k in range(m)]
        lens = [draw(st.integers(1, max_stem)) for _ in range(m)]
        gap = st.sampled_from([0, 0, 0, 1, 1, 2, 3, 4, 5][: 4 + max_gap])
        gaps = [draw(gap) for _ in range(2 * m + 1)]
        # endpoint e occupies a block of len(stem) positions
        owner = {}
        for k, (a, b) in enumerate(apairs):
            owner[a] = (k, 0)
            owner[b] = (k, 1)
        pos = 1 + gaps[0]
        start = {}
        for e in range(2 * m):
            k, side = owner[e]
            start[e] = pos
            pos += lens[k] + gaps[e + 1]
        n = pos - 1
        pairs = []
        for k, (a, b) in enumerate(apairs):
            for t in range(lens[k]):
                pairs.append((start[a] + t, start[b] + lens[k] - 1 - t))
        if n == 0:
            n = 1
        # single-character BPSEQ symbols: nucleotides, IUPAC codes, lower case (modified residues), and the
        # placeholders the library itself writes or tools use for unknown / missing residues
        letters = draw(st.sampled_from(["ACGU", "ACGUT", SEQ_LETTERS, "N", "ACGU?", "acgu", "ACGU-", "ACGUn?*", "AC.GU", "0123ACGU"]))
        seq = "".join(draw(st.lists(st.sampled_from(letters), min_size=n, max_size=n)))
        return (seq, tuple(sorted(pairs)))

    return build()


def st_large_structures(min_pairs: int = 30, max_pairs: int = 120, max_cross: int = 4, max_stem: int = 15, max_gap: int = 30):
    """long structures: a random non-crossing arrangement of many stems (Dyck word drawn step by step, repaired by
    construction) plus a few extra chords that cross it, stems of 1..max_stem pairs, unpaired runs of 0..max_gap"""
    from hypothesis import strategies as st

    @st.composite
    def build(draw):
        m = draw(st.integers(min_pairs, max_pairs))
        bits = draw(st.lists(st.booleans(), min_size=2 * m, max_size=2 * m))
        stack, chords, e = [], [], 0
        for step in range(2 * m):
            remaining = 2 * m - step
            if not stack:
                op = True
            elif len(stack) == remaining:
                op = False
            else:
                op = bits[step]
            if op:
                stack.append(e)
            else:
                chords.append((stack.pop(), e))
            e += 1
        # extra crossing chords: two new endpoints at drawn places between the existing ones (fractional positions,
        # ranked afterwards)
        fl = [(float(x), float(y)) for x, y in chords]
        for k in range(draw(st.integers(0, max_cross))):
            pa = draw(st.integers(0, 2 * m)) - 0.5 + 0.01 * (k + 1)
            pb = draw(st.integers(0, 2 * m)) - 0.5 + 0.013 * (k + 1) + 0.2
            if pa == pb:
                continue
            fl.append((min(pa, pb), max(pa, pb)))
        ends = sorted({e for ch in fl for e in ch})
        rank = {e: r for r, e in enumerate(ends)}
        chords = [(rank[x], rank[y]) for x, y in fl]
        chords = sorted(chords)
        lens = [draw(st.integers(1, max_stem)) if draw(st.integers(0, 3)) else draw(st.integers(1, 3)) for _ in chords]
        gap_s = st.one_of(st.sampled_from([0, 0, 1, 2, 3]), st.integers(0, max_gap))
        owner = {}
        for t, (a, b) in enumerate(chords):
            owner[a] = t
            owner[b] = t
        if len(owner) != 2 * len(chords):
            raise ValueError("large structure generator produced clashing endpoints")
        pos = 1 + draw(gap_s)
        start = {}
        for e in range(2 * len(chords)):
            start[e] = pos
            pos += lens[owner[e]] + draw(gap_s)
        n = pos - 1
        pairs = []
        for t, (a, b) in enumerate(chords):
            for d in range(lens[t]):
                pairs.append((start[a] + d, start[b] + lens[t] - 1 - d))
        letters = draw(st.sampled_from(["ACGU", "ACGUT", "N", "acgu", SEQ_LETTERS]))
        seq = "".join(letters[(k * 7 + k // 3) % len(letters)] for k in range(n))
        return (seq, tuple(sorted(pairs)))

    return build()


def ladder(k: int, stem_len: int = 1, gap: int = 0) -> Tuple[str, tuple]:
    """k mutually crossing stems: needs exactly k levels"""
    n_half = k * (stem_len + gap)
    pairs = []
    for s in range(k):
        a0 = s * (stem_len + gap) + 1
        b_end = n_half + (s + 1) * (stem_len + gap) - gap
        for t in range(stem_len):
            pairs.append((a0 + t, b_end - t))
    n = 2 * n_half
    return (seq_for(n, k), tuple(sorted(pairs)))


def with_hairpins_inside(chords, lens, gap: int, n_hairpins: int) -> Tuple[str, tuple]:
    """the structure of a chord diagram (stem lengths `lens`) with n_hairpins small hairpins inserted into the unpaired gap
    after endpoint block `gap`: crossing stems that lie far apart in the 5'->3' order of the stems (long molecules)"""
    seq, pairs = chord_structure(chords, True, lens)
    k = len(chords)
    lens = list(lens) if lens else [1] * k
    owner = {}
    for t, (a, b) in enumerate(chords):
        owner[a] = t
        owner[b] = t
    pos = 0
    for e in range(gap + 1):
        pos += lens[owner[e]] + 1
    # pos = index (1-based) of the unpaired nucleotide after block `gap`; the hairpins go right after it
    block = 6 * n_hairpins
    moved = []
    for i, j in pairs:
        moved.append((i + block if i > pos else i, j + block if j > pos else j))
    for h in range(n_hairpins):
        a = pos + 6 * h + 1
        moved.append((a, a + 4))
    n = len(seq) + block
    return (seq_for(n, k), tuple(sorted(moved)))


def kissing_chain(k: int, lens=None) -> Tuple[str, tuple]:
    """k helices in a row, each crossing only its neighbours (a1 a2 b1 a3 b2 ... ak b(k-1) bk): ONE group of k crossing
    stems whose conflict graph is a path - two levels suffice, the enumeration over stem orders has k! members"""
    order = ["a0", "a1", "b0"]
    for i in range(2, k):
        order += [f"a{i}", f"b{i - 1}"]
    order.append(f"b{k - 1}")
    if k == 1:
        order = ["a0", "b0"]
    pos = {e: i for i, e in enumerate(order)}
    chords = [(pos[f"a{i}"], pos[f"b{i}"]) for i in range(k)]
    return chord_structure(chords, True, lens)


def star(k: int, stem_len: int = 1) -> Tuple[str, tuple]:
    """one long-range stem crossing k nested, bulge-separated stems: two levels suffice, but one stem has k crossing
    neighbours (the bound 'largest number of crossing neighbours + 1' exceeds the 30 bracket kinds from k = 30 on)"""
    pairs = []
    left = k * (stem_len + 1)
    a = left + 1
    right0 = a + 3
    for i in range(k):
        x0 = i * (stem_len + 1) + 1
        y_end = right0 + (k - i) * stem_len
        for t in range(stem_len):
            pairs.append((x0 + t, y_end - t))
    b = right0 + k * stem_len + 1
    pairs.append((a, b))
    return (seq_for(b, k), tuple(sorted(pairs)))


def st_dotbrackets(max_len: int = 60, max_types: int = 30):
    """balanced dot-bracket strings: per-type Dyck words interleaved by construction."""
    from hypothesis import strategies as st

    @st.composite
    def build(draw):
        n = draw(st.integers(1, max_len))
        ntypes = draw(st.integers(1, max_types))
        types = draw(st.lists(st.integers(0, 29), min_size=ntypes, max_size=ntypes, unique=True))
        chars = []
        open_count = {t: 0 for t in types}
        for pos in range(n):
            remaining = n - pos
            pending = sum(open_count.values())
            closable = [t for t in types if open_count[t] > 0]
            if pending >= remaining:
                # must close
                t = draw(st.sampled_from(closable))
                chars.append(CLOSE[t])
                open_count[t] -= 1
                continue
            choice = draw(st.integers(0, 3))
            if choice == 0 or (choice == 3 and not closable):
                chars.append(".")
            elif choice in (1, 2) and pending + 1 <= remaining - 1:
                t = draw(st.sampled_from(types))
                chars.append(OPEN[t])
                open_count[t] += 1
            elif closable:
                t = draw(st.sampled_from(closable))
                chars.append(CLOSE[t])
                open_count[t] -= 1
            else:
                chars.append(".")
        structure = "".join(chars)
        seq = "".join(draw(st.lists(st.sampled_from("ACGU"), min_size=n, max_size=n)))
        return (seq, structure)

    return build()


def describe(seq, pairs):
    st = stems(pairs)
    g = stem_conflicts(st)
    comps = components(g)
    return st, g, comps


def labels_for(seq, pairs) -> Tuple[bool, List[str], dict]:
    st, g, comps = describe(seq, pairs)
    pset = set(pairs)
    partner = {}
    for i, j in pairs:
        partner[i] = j
        partner[j] = i
    labs = []
    knotted = bool(comps)
    labs.append("knotted" if knotted else "nested")
    maxcomp = max((len(c) for c in comps), default=0)
    if maxcomp >= 3:
        labs.append("component>=3")
    if len(comps) >= 2:
        labs.append("components>=2")
    if any(n == 1 for _, _, n in st):
        labs.append("stem-of-1")
    zero_hp = any(j == i + 1 for i, j in pairs)
    if zero_hp:
        labs.append("zero-length-hairpin")
    adjacent = False
    srt = sorted(partner)
    for a, b in zip(srt, srt[1:]):
        if b == a + 1 and partner[a] != b and not ((a + 1, partner[a] - 1) in pset or (partner[a] - 1, a + 1) in pset):
            adjacent = True
            break
    if adjacent:
        labs.append("adjacent-stems")
    levels_needed = max(fcfs_levels(st, g), default=0) + 1 if st else 0
    if levels_needed >= 3:
        labs.append("levels>=3")
    if not pairs:
        labs.append("no-pairs")
    nontrivial = knotted or zero_hp or adjacent or levels_needed >= 3
    info = {"stems": len(st), "components": [len(c) for c in comps]}
    return nontrivial, labs, info
