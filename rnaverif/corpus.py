"""Corpus of real structures from /repo/tests, parsed with the residue-level reader."""

from __future__ import annotations

import functools
import gzip
import os
import tempfile

from rnaverif.runner import HarnessError, REPO, WORK_DIR

TESTS = os.path.join(REPO, "tests")

# ordered by size (number of residues), small first
SMALL = ["1HMH_1_E.cif", "6INQ.cif", "1DFU_1_M-N.cif", "4WTI_1_T-P.cif", "1E7K_1_C.cif", "184D.cif", "1A1T_1_B.cif",
         "1ATO.pdb", "8btk_B7.cif", "1E7K_1_C_modified.cif"]
MEDIUM = ["1ehz-assembly-1.cif", "488d.pdb", "4gqj-assembly1.cif", "6FC9.cif", "1JJP.cif",
          "q-ugg-5k-salt_400-500ns_frame1065.pdb", "1gid.cif.gz"]
LARGE = ["4qln.cif", "4qln.pdb", "6g90_1.cif", "1a9n.cif", "2HY9.cif", "6RS3.cif"]


def all_files():
    fs = []
    for fn in SMALL + MEDIUM + LARGE:
        p = os.path.join(TESTS, fn)
        if os.path.exists(p) and os.path.getsize(p) > 0:
            fs.append(fn)
    return fs


def open_corpus(fn):
    """returns an open text file object with a .name (decompressing .gz into the work dir)"""
    path = os.path.join(TESTS, fn)
    if fn.endswith(".gz"):
        os.makedirs(WORK_DIR, exist_ok=True)
        tmp = tempfile.NamedTemporaryFile("wt+", suffix="." + fn[:-3].rsplit(".", 1)[1], dir=WORK_DIR)
        with gzip.open(path, "rt") as f:
            tmp.write(f.read())
        tmp.flush()
        tmp.seek(0)
        return tmp
    return open(path)


@functools.lru_cache(maxsize=None)
def structure(fn, model=None):
    from rnapolis.parser import read_3d_structure

    with open_corpus(fn) as f:
        s3 = read_3d_structure(f, model)
    if not s3.residues:
        raise HarnessError(f"corpus file {fn} parsed to an empty structure")
    return s3


def nucleotides(s3):
    return [r for r in s3.residues if r.is_nucleotide]
