"""Shared runner: sharding, known findings, replay files, evidence, exit codes.

A property module (rnaverif.props.cNN) exposes

    PROP_ID      "C01"
    LEVEL        "exploration" | "fault_enumeration"
    RULE         text: how cases are generated and what makes one non-trivial
    ASSUMPTIONS  list of strings
    plan(tier, seed)      -> list of JSON-able shard specs
    run_shard(spec)       -> ShardResult   (executed in a worker process)
    replay(case)          -> list of Discrepancy (oracle only, no Hypothesis)

Exit codes of check.py: 0 held, 1 violation (with VIOLATION lines), 2 harness
error (never reported as a violation).
"""

from __future__ import annotations

import hashlib
import importlib
import json
import multiprocessing as mp
import os
import sys
import time
import traceback
from collections import Counter
from dataclasses import dataclass, field
from typing import Any, Callable, Dict, List, Optional

VERIF = os.path.dirname(os.path.dirname(os.path.abspath(__file__)))
REPO = os.environ.get("RNAPOLIS_REPO", "/repo")
KNOWN_FILE = os.path.join(VERIF, "known_findings.json")
EVIDENCE_DIR = os.environ.get("VERIF_EVIDENCE_DIR") or os.path.join(VERIF, "evidence")
REPLAY_DIR = os.environ.get("VERIF_REPLAY_DIR") or os.path.join(VERIF, "replays")
REGRESSION_DIR = os.path.join(VERIF, "regressions")
WORK_DIR = os.path.join(VERIF, ".work")
NPROC = int(os.environ.get("VERIF_JOBS", "16"))
SHRINK_BUDGET_S = float(os.environ.get("VERIF_SHRINK_S", "15"))


class HarnessError(Exception):
    """Raised when the harness (not the code under test) is at fault."""


@dataclass
class Discrepancy:
    sig: str  # root-cause signature, stable across inputs
    what: str  # human-readable description of what is wrong on this input

    def to_json(self):
        return {"sig": self.sig, "what": self.what}


def D(sig: str, what: str = "") -> Discrepancy:
    return Discrepancy(sig, what)


def case_hash(obj: Any) -> int:
    s = json.dumps(obj, sort_keys=True, default=str, separators=(",", ":"))
    return int.from_bytes(hashlib.sha1(s.encode()).digest()[:8], "big")


@dataclass
class ShardResult:
    evaluations: int = 0
    nontrivial: set = field(default_factory=set)  # hashes of distinct non-trivial cases
    classes: Counter = field(default_factory=Counter)
    samples: list = field(default_factory=list)
    failures: list = field(default_factory=list)  # {sig, what, case}
    known_hits: Counter = field(default_factory=Counter)
    skipped: int = 0
    exhaustive: Optional[bool] = None
    notes: list = field(default_factory=list)
    extra: dict = field(default_factory=dict)  # summed numerically by the parent
    trivial_samples: list = field(default_factory=list)

    def note_case(self, case_json: Any, nontrivial: bool, labels=(), sample_cap: int = 3):
        self.evaluations += 1
        for lab in labels:
            self.classes[lab] += 1
        if not nontrivial and len(self.trivial_samples) < 2:
            self.trivial_samples.append(case_json)
        if nontrivial:
            h = case_hash(case_json)
            if h not in self.nontrivial:
                self.nontrivial.add(h)
                if len(self.samples) < sample_cap:
                    self.samples.append(case_json)


def sut_location(tb) -> str:
    """innermost frame inside rnapolis (file:function), else innermost frame."""
    frames = traceback.extract_tb(tb)
    loc = None
    for fr in frames:
        if "/rnapolis/" in fr.filename:
            loc = f"{os.path.basename(fr.filename)}:{fr.name}"
    if loc is None and frames:
        fr = frames[-1]
        loc = f"{os.path.basename(fr.filename)}:{fr.name}"
    return loc or "?"


def exception_discrepancy(prop: str, exc: BaseException) -> Discrepancy:
    frames = traceback.extract_tb(exc.__traceback__)
    if frames and not any("/rnapolis/" in fr.filename for fr in frames):
        # no frame of the code under test on the stack: the harness itself failed - never a violation
        fr = frames[-1]
        raise HarnessError(f"harness exception {type(exc).__name__}: {str(exc)[:200]} at {os.path.basename(fr.filename)}:{fr.lineno} ({fr.name})")
    loc = sut_location(exc.__traceback__)
    return D(
        f"{prop}:exception:{type(exc).__name__}@{loc}",
        f"{type(exc).__name__}: {str(exc)[:300]} at {loc}",
    )


# ---------------------------------------------------------------------------
# known findings


def load_known() -> List[dict]:
    if not os.path.exists(KNOWN_FILE):
        return []
    with open(KNOWN_FILE) as f:
        data = json.load(f)
    return data.get("findings", [])


def known_signatures(prop: str) -> Dict[str, dict]:
    return {
        e["signature"]: e
        for e in load_known()
        if e.get("property") == prop and e.get("status") == "known"
    }


# ---------------------------------------------------------------------------
# Hypothesis driver: collect-then-shrink with root-cause exclusion


def run_hypothesis(
    prop: str,
    strategy,
    oracle: Callable[[Any], List[Discrepancy]],
    *,
    seed: int,
    max_examples: int,
    result: ShardResult,
    to_json: Callable[[Any], Any] = lambda c: c,
    classify: Optional[Callable[[Any], tuple]] = None,
    shrink: bool = True,
    max_root_causes: int = 3,
    sample_cap: int = 3,
):
    """Runs `oracle` over cases drawn from `strategy`.

    classify(case) -> (nontrivial: bool, labels: iterable[str]).
    Discrepancies whose signature is a listed known finding are counted and
    excluded; any other raises inside Hypothesis so that it is shrunk.  After a
    failure the search is restarted with that signature excluded too, so
    several root causes are reported by one run.
    """
    import hypothesis
    from hypothesis import HealthCheck, Phase, given, settings

    known = set(known_signatures(prop))
    excluded: set = set()
    counted = {"first_pass": True}

    class _Fail(Exception):
        pass

    class _Stop(BaseException):
        """aborts Hypothesis' shrinker when the minimisation budget is spent"""

    for attempt in range(max_root_causes):
        last = {}

        def body(case):
            # minimisation budget: once a failure is known, shrinking gets SHRINK_BUDGET_S seconds;
            # afterwards further candidates are not evaluated (the smallest failing case so far is kept)
            if last and time.monotonic() - last["t0"] > SHRINK_BUDGET_S:
                raise _Stop()
            try:
                ds = oracle(case)
            except HarnessError:
                raise
            except _Fail:
                raise
            except Exception as exc:  # crash of code under test (or of the oracle on its output)
                ds = [exception_discrepancy(prop, exc)]
            # classification after the oracle so that it may reuse what the oracle computed
            nt, labels = classify(case) if classify else (True, ())
            result.note_case(to_json(case), nt, labels, sample_cap)
            fresh = []
            for d in ds:
                if d.sig in known:
                    result.known_hits[d.sig] += 1
                elif d.sig in excluded:
                    pass
                else:
                    fresh.append(d)
            if fresh:
                last.setdefault("t0", time.monotonic())
                last["case"] = to_json(case)
                last["ds"] = fresh
                # one root cause at a time so that shrinking stays on it
                target = fresh[0].sig
                last["sig"] = target
                raise _Fail(target)

        phases = [Phase.generate] + ([Phase.shrink] if shrink else [])
        test = given(strategy)(body)
        test = hypothesis.seed(seed + attempt * 7919)(test)
        test = settings(
            max_examples=max_examples,
            database=None,
            deadline=None,
            derandomize=False,
            report_multiple_bugs=False,
            suppress_health_check=list(HealthCheck),
            phases=phases,
            print_blob=False,
        )(test)
        try:
            test()
        except (_Fail, _Stop):
            pass
        except HarnessError:
            raise
        except hypothesis.errors.Unsatisfiable as exc:
            raise HarnessError(f"generator unsatisfiable: {exc}")
        except BaseException as exc:
            # Hypothesis wraps some failures (Flaky etc.)
            if not last:
                raise HarnessError(
                    f"hypothesis failure without recorded case: {type(exc).__name__}: {exc}"
                )
        counted["first_pass"] = False
        if not last:
            break
        sig = last["sig"]
        d0 = [d for d in last["ds"] if d.sig == sig][0]
        result.failures.append(
            {"sig": sig, "what": d0.what, "case": last["case"],
             "all": [d.to_json() for d in last["ds"]]}
        )
        excluded.add(sig)


def check_case(prop: str, oracle, case, result: ShardResult, to_json=lambda c: c,
               known: Optional[set] = None) -> None:
    """For enumerated (non-Hypothesis) domains: run oracle, file discrepancies."""
    if known is None:
        known = set(known_signatures(prop))
    try:
        ds = oracle(case)
    except HarnessError:
        raise
    except Exception as exc:
        ds = [exception_discrepancy(prop, exc)]
    seen = {f["sig"] for f in result.failures}
    for d in ds:
        if d.sig in known:
            result.known_hits[d.sig] += 1
        elif d.sig not in seen:
            # first (enumeration order => smallest) case per signature is kept
            result.failures.append({"sig": d.sig, "what": d.what, "case": to_json(case)})
            seen.add(d.sig)


# ---------------------------------------------------------------------------
# parent process


def _worker(args):
    modname, spec = args
    t0 = time.time()
    if spec.get("python") == "-O" and not sys.flags.optimize:
        return _worker_optimized(modname, spec, t0)
    try:
        mod = importlib.import_module(modname)
        if spec.get("loglevel") == "DEBUG":
            # the library runs with debug logging switched on (LOGLEVEL=DEBUG is its documented switch): what it
            # computes must not depend on whether its log lines are evaluated; the lines themselves go nowhere
            import logging

            root = logging.getLogger()
            saved = (root.level, list(root.handlers), logging.root.manager.disable)
            root.handlers = [logging.NullHandler()]
            root.setLevel(logging.DEBUG)
            logging.disable(logging.NOTSET)
            try:
                res = mod.run_shard(spec)
            finally:
                root.setLevel(saved[0])
                root.handlers = saved[1]
                logging.disable(saved[2])
            res.extra["shards_with_debug_logging"] = res.extra.get("shards_with_debug_logging", 0) + 1
        else:
            res = mod.run_shard(spec)
        return ("ok", spec, res, time.time() - t0)
    except HarnessError as exc:
        return ("harness", spec, f"{exc}\n{traceback.format_exc()}", time.time() - t0)
    except BaseException as exc:
        return ("harness", spec, f"{type(exc).__name__}: {exc}\n{traceback.format_exc()}", time.time() - t0)


_OPT_CHILD = """
import logging, pickle, sys, warnings
logging.disable(logging.CRITICAL)
warnings.filterwarnings("ignore")
from rnaverif import runner
with open(sys.argv[1], "rb") as f:
    args = pickle.load(f)
out = runner._worker(args)
with open(sys.argv[2], "wb") as f:
    pickle.dump(out, f)
"""


def _worker_optimized(modname, spec, t0):
    """the shard in an interpreter started with -O (assert statements and `if __debug__` blocks are not executed, as in
    many container images and under PYTHONOPTIMIZE=1): what the library returns must not rest on an assert"""
    import pickle
    import subprocess

    os.makedirs(WORK_DIR, exist_ok=True)
    base = os.path.join(WORK_DIR, f"opt_{os.getpid()}_{abs(hash(json.dumps(spec, sort_keys=True, default=str))) % 10 ** 9}")
    try:
        with open(base + ".in", "wb") as f:
            pickle.dump((modname, spec), f)
        env = dict(os.environ)
        env.pop("PYTHONOPTIMIZE", None)
        p = subprocess.run([sys.executable, "-O", "-c", _OPT_CHILD, base + ".in", base + ".out"], env=env, capture_output=True, text=True)
        if p.returncode != 0 or not os.path.exists(base + ".out"):
            return ("harness", spec, f"-O child failed (rc {p.returncode}): {(p.stderr or p.stdout)[-800:]}", time.time() - t0)
        with open(base + ".out", "rb") as f:
            out = pickle.load(f)
        if out[0] == "ok":
            out[2].extra["shards_under_python_O"] = out[2].extra.get("shards_under_python_O", 0) + 1
        return out
    finally:
        for ext in (".in", ".out"):
            try:
                os.remove(base + ext)
            except OSError:
                pass


def validate_evidence(ev: dict) -> None:
    schema_path = "/root/.vp/EVIDENCE.schema.json"
    local = os.path.join(VERIF, "schemas", "EVIDENCE.schema.json")
    path = schema_path if os.path.exists(schema_path) else local
    try:
        deps = os.path.join(VERIF, ".deps")
        if deps not in sys.path:
            sys.path.append(deps)
        import jsonschema  # type: ignore
    except Exception:
        jsonschema = None
    if jsonschema is not None and os.path.exists(path):
        with open(path) as f:
            schema = json.load(f)
        jsonschema.validate(ev, schema)
    else:
        cov = ev["coverage"]
        for k in ("evaluations", "distinct_nontrivial", "rule", "samples"):
            if k not in cov:
                raise HarnessError(f"evidence lacks coverage.{k}")
        if cov["evaluations"] < 1 or cov["distinct_nontrivial"] < 2 or not cov["samples"]:
            raise HarnessError("evidence counts too small for the exploration level")


def sig_slug(sig: str) -> str:
    keep = "".join(ch if ch.isalnum() or ch in "-_." else "_" for ch in sig)
    return keep[:60] + "-" + hashlib.sha1(sig.encode()).hexdigest()[:8]


def main(argv=None) -> int:
    import argparse

    ap = argparse.ArgumentParser()
    ap.add_argument("prop")
    ap.add_argument("--tier", default=os.environ.get("VERIF_TIER", "quick"), choices=["quick", "thorough"])
    ap.add_argument("--replay")
    ap.add_argument("--jobs", type=int, default=NPROC)
    args = ap.parse_args(argv)

    prop = args.prop.upper()
    seed = int(os.environ.get("VERIF_SEED", "1") or "1")
    modname = f"rnaverif.props.{prop.lower()}"
    t0 = time.time()
    try:
        mod = importlib.import_module(modname)
    except Exception as exc:
        print(f"HARNESS-ERROR property={prop} import failed: {type(exc).__name__}: {exc}")
        traceback.print_exc()
        return 2

    if args.replay:
        return do_replay(mod, prop, args.replay)

    known = known_signatures(prop)
    fixed = [e for e in load_known() if e.get("property") == prop and e.get("status") == "fixed"]

    violations: List[dict] = []
    known_lines: List[str] = []

    # 1. replay tier: stored inputs of known findings and of fixed findings
    try:
        for sig, entry in known.items():
            rp = entry.get("replay")
            if not rp:
                continue
            with open(os.path.join(VERIF, rp)) as f:
                rec = json.load(f)
            ds = safe_replay(mod, prop, rec["case"])
            sigs = {d.sig for d in ds}
            if sig in sigs:
                known_lines.append(f"KNOWN-FINDING: property={prop} {entry.get('what', sig)} [signature {sig}; input {rp}]")
            for d in ds:
                if d.sig not in known:
                    violations.append({"sig": d.sig, "what": d.what, "case": rec["case"], "origin": f"replay of {rp}"})
        regdir = os.path.join(REGRESSION_DIR)
        if os.path.isdir(regdir):
            for fn in sorted(os.listdir(regdir)):
                if not fn.startswith(prop + "-") or not fn.endswith(".json"):
                    continue
                with open(os.path.join(regdir, fn)) as f:
                    rec = json.load(f)
                ds = safe_replay(mod, prop, rec["case"])
                for d in ds:
                    if d.sig not in known:
                        violations.append({"sig": d.sig, "what": d.what, "case": rec["case"], "origin": f"regression {fn}"})
    except HarnessError as exc:
        print(f"HARNESS-ERROR property={prop} {exc}")
        return 2

    # stale replay files of this property are removed: replays/ reflects the latest run only
    if os.path.isdir(REPLAY_DIR):
        for fn in os.listdir(REPLAY_DIR):
            if fn.startswith(prop + "-") and fn.endswith(".json"):
                try:
                    os.remove(os.path.join(REPLAY_DIR, fn))
                except OSError:
                    pass

    # 2. generated search
    try:
        specs = mod.plan(args.tier, seed)
    except Exception as exc:
        print(f"HARNESS-ERROR property={prop} plan failed: {type(exc).__name__}: {exc}")
        traceback.print_exc()
        return 2
    # a configuration every property quantifies over implicitly: the library's log level. Every fourth shard of every
    # check runs with debug logging switched on (output discarded); answers must not depend on it
    for i, sp in enumerate(specs):
        if i % 8 == 5 and "python" not in sp:
            sp["python"] = "-O"
        if i % 4 == 3 and "loglevel" not in sp:
            sp["loglevel"] = "DEBUG"

    agg = ShardResult()
    harness_errors = []
    exhaustive_flags = []
    jobs = max(1, min(args.jobs, len(specs)))
    work = [(modname, s) for s in specs]
    if jobs == 1:
        outs = map(_worker, work)
    else:
        ctx = mp.get_context("fork")
        pool = ctx.Pool(jobs)
        outs = pool.imap_unordered(_worker, work, chunksize=1)
    shard_times = []
    per_kind = {}
    exhaustive_kinds = set()
    for status, spec, res, dt in outs:
        shard_times.append(round(dt, 2))
        if status != "ok":
            harness_errors.append((spec, res))
            continue
        agg.evaluations += res.evaluations
        agg.nontrivial |= res.nontrivial
        agg.classes.update(res.classes)
        kind = spec.get("kind", "") if isinstance(spec, dict) else ""
        per_kind[kind] = per_kind.get(kind, 0) + len(res.samples[:2])
        if per_kind[kind] <= 4:
            agg.samples.extend(res.samples[:2])
        if len(agg.trivial_samples) < 3:
            agg.trivial_samples.extend(res.trivial_samples[:1])
        agg.failures.extend(res.failures)
        agg.known_hits.update(res.known_hits)
        agg.skipped += res.skipped
        agg.notes.extend(res.notes)
        for k, v in res.extra.items():
            agg.extra[k] = agg.extra.get(k, 0) + v
        if res.exhaustive is not None:
            exhaustive_flags.append(res.exhaustive)
            if res.exhaustive:
                exhaustive_kinds.add(kind)
    if jobs > 1:
        pool.close()
        pool.join()

    if harness_errors:
        for spec, msg in harness_errors[:3]:
            print(f"HARNESS-ERROR property={prop} shard={json.dumps(spec)[:200]}\n{msg}")
        return 2

    for f in agg.failures:
        if f["sig"] in known:
            agg.known_hits[f["sig"]] += 1
        else:
            f.setdefault("origin", "generated search")
            violations.append(f)

    # one replay file per root-cause signature; keep the smallest case
    by_sig: Dict[str, dict] = {}
    for v in violations:
        cur = by_sig.get(v["sig"])
        if cur is None or len(json.dumps(v["case"], default=str)) < len(json.dumps(cur["case"], default=str)):
            by_sig[v["sig"]] = v

    os.makedirs(REPLAY_DIR, exist_ok=True)
    lines = []
    for sig, v in sorted(by_sig.items()):
        path = os.path.join(REPLAY_DIR, f"{prop}-{sig_slug(sig)}.json")
        with open(path, "w") as f:
            json.dump({"property": prop, "signature": sig, "what": v["what"], "origin": v.get("origin"),
                       "seed": seed, "tier": args.tier, "case": v["case"]}, f, indent=1, default=str)
        lines.append(f"VIOLATION property={prop} replay={path}")
        print(f"  {sig}: {v['what'][:400]}")

    wall = time.time() - t0
    cov = {
        "evaluations": agg.evaluations,
        "distinct_nontrivial": len(agg.nontrivial),
        "rule": mod.RULE,
        "samples": (agg.samples[:12] or agg.trivial_samples[:3]),
        "classes": dict(sorted(agg.classes.items())),
        "skipped_or_undecided": agg.skipped,
        "known_finding_hits_excluded": dict(agg.known_hits),
        "shards": len(specs),
        "shard_wall_s_max": max(shard_times) if shard_times else 0,
        "violation_signatures": sorted(by_sig),
    }
    cov.update({k: v for k, v in agg.extra.items()})
    if exhaustive_flags:
        cov["exhaustive"] = all(exhaustive_flags)
        if exhaustive_kinds and not all(exhaustive_flags):
            cov["exhaustive_subdomains"] = sorted(exhaustive_kinds)
    if agg.notes:
        cov["notes"] = sorted(set(agg.notes))[:20]
    if hasattr(mod, "coverage_extra"):
        cov.update(mod.coverage_extra(args.tier))
    ev = {
        "property_id": prop,
        "tier": args.tier,
        "seed": seed,
        "level": mod.LEVEL,
        "coverage": cov,
        "assumptions": list(mod.ASSUMPTIONS),
        "wall_s": round(wall, 2),
        "violations": len(by_sig),
    }
    evidence_problem = None
    try:
        validate_evidence(ev)
    except HarnessError as exc:
        evidence_problem = str(exc)
    except Exception as exc:
        evidence_problem = f"{type(exc).__name__}: {str(exc)[:500]}"
    os.makedirs(EVIDENCE_DIR, exist_ok=True)
    with open(os.path.join(EVIDENCE_DIR, f"{prop}.json"), "w") as f:
        json.dump(ev, f, indent=1, default=str)
        f.write("\n")
    if evidence_problem and not by_sig:
        print(f"HARNESS-ERROR property={prop} evidence invalid: {evidence_problem}")
        return 2

    for ln in known_lines:
        print(ln)
    for ln in lines:
        print(ln)
    print(
        f"{prop} tier={args.tier} seed={seed} evaluations={agg.evaluations} "
        f"distinct_nontrivial={len(agg.nontrivial)} known_hits={sum(agg.known_hits.values())} "
        f"violations={len(by_sig)} wall={wall:.1f}s"
    )
    return 1 if by_sig else 0


def safe_replay(mod, prop, case) -> List[Discrepancy]:
    try:
        return list(mod.replay(case))
    except HarnessError:
        raise
    except Exception as exc:
        return [exception_discrepancy(prop, exc)]


def do_replay(mod, prop, path) -> int:
    with open(path) as f:
        rec = json.load(f)
    known = known_signatures(prop)
    try:
        ds = safe_replay(mod, prop, rec["case"])
    except HarnessError as exc:
        print(f"HARNESS-ERROR property={prop} {exc}")
        return 2
    bad = False
    for d in ds:
        if d.sig in known:
            print(f"KNOWN-FINDING: property={prop} {known[d.sig].get('what', d.sig)}")
        else:
            print(f"  {d.sig}: {d.what}")
            bad = True
    if bad:
        print(f"VIOLATION property={prop} replay={os.path.abspath(path)}")
        return 1
    print(f"{prop} replay {path}: no discrepancy")
    return 0
