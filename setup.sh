#!/bin/sh
# Offline setup: Hypothesis next to the repository's packages (if missing), jsonschema + atheris into /verif/.deps.
set -e
W=/opt/veriftools/wheels
/venv/bin/python -c 'import hypothesis' 2>/dev/null || PIP_NO_INDEX=1 /venv/bin/pip install --no-index --find-links $W hypothesis
mkdir -p /verif/.deps /verif/.work
/venv/bin/python -c 'import sys; sys.path.append("/verif/.deps"); import jsonschema, atheris' 2>/dev/null || \
  PIP_NO_INDEX=1 /venv/bin/pip install --no-index --find-links $W --target /verif/.deps --upgrade jsonschema atheris >/dev/null 2>&1 || \
  echo "note: jsonschema/atheris not installable; evidence validated by built-in checks, atheris tier skipped"
/venv/bin/python -c 'import rnapolis, hypothesis; print("setup ok: hypothesis", hypothesis.__version__)'
