#!/venv/bin/python
"""Entry point: /verif/check.py <ID> --tier quick|thorough [--replay PATH].

Re-executes itself under /venv/bin/python with PYTHONHASHSEED=0 and with
/repo/src first on the path, so a run is a pure function of (/repo working
tree, VERIF_SEED, tier).
"""
import os
import sys

HERE = os.path.dirname(os.path.abspath(__file__))
REPO = os.environ.get("RNAPOLIS_REPO", "/repo")
PY = "/venv/bin/python"


def _reexec():
    env = dict(os.environ)
    env["PYTHONHASHSEED"] = "0"
    env["RNAVERIF_CHILD"] = "1"
    env["PYTHONPATH"] = os.pathsep.join([os.path.join(REPO, "src"), HERE])
    env["PYTHONDONTWRITEBYTECODE"] = "1"
    env.setdefault("LOGLEVEL", "ERROR")
    env.setdefault("OMP_NUM_THREADS", "1")
    env.setdefault("OPENBLAS_NUM_THREADS", "1")
    os.execve(PY, [PY, os.path.abspath(__file__)] + sys.argv[1:], env)


if __name__ == "__main__":
    if os.environ.get("RNAVERIF_CHILD") != "1":
        _reexec()
    import logging

    logging.disable(logging.CRITICAL)
    import warnings

    warnings.filterwarnings("ignore")
    from rnaverif.runner import main

    sys.exit(main())
