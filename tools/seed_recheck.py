#!/usr/bin/env python3
"""Re-runs, for every seeded change, the quick check of the property it breaks (in a scratch copy via tools/mutant.py)
and writes seeded/RECHECK.json: {seed: exit code of its own check}. 1 = caught, 0 = missed, 2 = harness error.
usage: seed_recheck.py [--seed N] [seed ...]   (N = VERIF_SEED of the check runs, default 1; output RECHECK_seedN.json)"""
import json, os, re, subprocess, sys
VERIF = os.path.dirname(os.path.dirname(os.path.abspath(__file__)))
seeds = sorted(d for d in os.listdir(os.path.join(VERIF, "seeded")) if os.path.isdir(os.path.join(VERIF, "seeded", d)))
argv = sys.argv[1:]
vseed = "1"
if argv[:1] == ["--seed"]:
    vseed, argv = argv[1], argv[2:]
only = argv or seeds
out = {}
path = os.path.join(VERIF, "seeded", f"RECHECK_seed{vseed}.json")
for s in only:
    meta = json.load(open(os.path.join(VERIF, "seeded", s, "meta.json")))
    pid = meta.get("breaks_property") or meta.get("property")
    p = subprocess.run([sys.executable, os.path.join(VERIF, "tools", "mutant.py"), "--seed", vseed, "--patch", os.path.join(VERIF, "seeded", s, "patch.diff"), "--", pid],
                       capture_output=True, text=True)
    m = re.search(r"^%s: exit=(\d)" % pid, p.stdout, re.M)
    out[s] = int(m.group(1)) if m else -1
    print(s, pid, out[s], flush=True)
    json.dump(out, open(path, "w"), indent=1, sort_keys=True)
print("missed:", [s for s, rc in out.items() if rc != 1])
