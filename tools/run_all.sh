#!/bin/sh
# runs every registered quick (or $1) check; prints one line per check
TIER=${1:-quick}
cd /verif
for id in $(python3 -c "import json;print(' '.join(c['property_id'] for c in json.load(open('MANIFEST.json'))['checks']))"); do
  s=$(date +%s)
  out=$(./check.py $id --tier $TIER 2>&1); rc=$?
  e=$(date +%s)
  echo "$id rc=$rc $((e-s))s $(echo "$out" | tail -1 | cut -c1-160)"
  if [ $rc -ne 0 ]; then echo "$out" | grep -E "VIOLATION|HARNESS|^  C" | head -5; fi
done
