#!/usr/bin/env python3
"""Runs the repository's pinned suite and compares with BASELINE.json's stable_pass list."""
import json, subprocess, sys, tempfile, os, xml.etree.ElementTree as ET
base = json.load(open("/root/.vp/BASELINE.json"))
out = tempfile.mktemp(suffix=".xml", prefix="rnabase_")
subprocess.run(["/venv/bin/python", "-m", "pytest", "-q", "-p", "no:cacheprovider", "--timeout=900",
                "--continue-on-collection-errors", f"--junitxml={out}"], cwd="/repo",
               stdout=subprocess.DEVNULL, stderr=subprocess.DEVNULL)
passed = set()
for tc in ET.parse(out).getroot().iter("testcase"):
    if not any(ch.tag in ("failure", "error", "skipped") for ch in tc):
        passed.add(f"{tc.get('classname')}::{tc.get('name')}")
os.remove(out)
missing = [t for t in base["stable_pass"] if t not in passed]
print(f"passed={len(passed)} stable_pass={len(base['stable_pass'])} missing={missing}")
sys.exit(1 if missing else 0)
