#!/usr/bin/env python3
"""Intake of a seeded change produced in a scratch worktree /tmp/wt_<ID>/seed/:
confirms (1) demo passes without the change, (2) fails with it, (3) the pinned
test-suite still passes with it, then runs the /verif checks against the
changed tree and stores patch.diff, demo.py, notes.md, meta.json under
/verif/seeded/<name>/.   usage: seed_intake.py C04 [--name C04-a] [--checks C04,C11] [--all]"""
import argparse, json, os, shutil, subprocess, sys, tempfile, xml.etree.ElementTree as ET

VERIF = os.path.dirname(os.path.dirname(os.path.abspath(__file__)))
ALL = [f"C{n:02d}" for n in range(1, 21)]


def sh(cmd, cwd=None, env=None, timeout=3000):
    p = subprocess.run(cmd, shell=True, cwd=cwd, env=env, capture_output=True, text=True, timeout=timeout)
    return p.returncode, (p.stdout + p.stderr)


def main():
    ap = argparse.ArgumentParser()
    ap.add_argument("prop")
    ap.add_argument("--wt")
    ap.add_argument("--name")
    ap.add_argument("--checks")
    ap.add_argument("--all", action="store_true")
    ap.add_argument("--skip-suite", action="store_true")
    a = ap.parse_args()
    wt = a.wt or f"/tmp/wt_{a.prop}"
    name = a.name or a.prop
    seed = os.path.join(wt, "seed")
    env = dict(os.environ, PYTHONPATH=os.path.join(wt, "src"), LOGLEVEL="ERROR")
    meta = {"property": a.prop, "name": name}
    # make sure the worktree holds exactly the patch
    rc, out = sh("git stash list | wc -l", cwd=wt)
    rc, diff = sh("git diff -- src", cwd=wt)
    patch = open(os.path.join(seed, "patch.diff")).read()
    if not diff.strip():
        rc, out = sh(f"git apply {seed}/patch.diff", cwd=wt)
        if rc:
            print("patch does not apply:", out); return 2
    # 1. without the change
    # (git stash is shared between worktrees of one repository: toggle with apply -R / apply instead)
    rc, out = sh("git apply -R seed/patch.diff", cwd=wt)
    if rc:
        print("cannot revert patch:", out); return 2
    rc0, out0 = sh("/venv/bin/python seed/demo.py", cwd=wt, env=env)
    rcp, outp = sh("git apply seed/patch.diff", cwd=wt)
    if rcp:
        print("re-apply failed", outp); return 2
    # 2. with the change
    rc1, out1 = sh("/venv/bin/python seed/demo.py", cwd=wt, env=env)
    meta["demo_without_change"] = {"exit": rc0, "tail": out0.strip().splitlines()[-1:] }
    meta["demo_with_change"] = {"exit": rc1, "tail": out1.strip().splitlines()[-3:]}
    print("demo without:", rc0, "| with:", rc1)
    ok = rc0 == 0 and rc1 != 0
    # 3. pinned suite with the change
    if not a.skip_suite:
        base = json.load(open("/root/.vp/BASELINE.json"))
        xml = tempfile.mktemp(suffix=".xml", prefix="seed_")
        sh(f"/venv/bin/python -m pytest -q -p no:cacheprovider --timeout=900 --continue-on-collection-errors --junitxml={xml} tests", cwd=wt, env=env)
        passed = set()
        for tc in ET.parse(xml).getroot().iter("testcase"):
            if not any(ch.tag in ("failure", "error", "skipped") for ch in tc):
                passed.add(f"{tc.get('classname')}::{tc.get('name')}")
        os.remove(xml)
        missing = [t for t in base["stable_pass"] if t not in passed]
        meta["suite_with_change"] = {"stable_pass_still_passing": len(base["stable_pass"]) - len(missing), "missing": missing}
        print("suite missing:", missing)
        ok = ok and not missing
    if a.skip_suite:
        oldp = os.path.join(VERIF, "seeded", name, "meta.json")
        if os.path.exists(oldp):
            oldm = json.load(open(oldp))
            for k in ("suite_with_change", "change", "needs_to_manifest", "history", "breaks_property"):
                if k in oldm:
                    meta[k] = oldm[k]
            if "suite_with_change" in oldm:
                ok = ok and not oldm["suite_with_change"]["missing"]
    meta["confirmed"] = ok
    # 4. our checks against the changed tree
    checks = ALL if a.all else (a.checks.split(",") if a.checks else [a.prop])
    results = {}
    scratch = tempfile.mkdtemp(prefix="seedrun_")
    for c in checks:
        cenv = dict(os.environ, RNAPOLIS_REPO=wt, VERIF_EVIDENCE_DIR=os.path.join(scratch, "e"), VERIF_REPLAY_DIR=os.path.join(scratch, "r"))
        rc, out = sh(f"{VERIF}/check.py {c} --tier quick", env=cenv)
        sigs = [l.strip() for l in out.splitlines() if l.startswith("  C")]
        results[c] = {"exit": rc, "signatures": [s.split(": ")[0] for s in sigs][:8], "first": sigs[:2]}
        print(c, "exit", rc, [s[:140] for s in sigs[:3]])
    shutil.rmtree(scratch, ignore_errors=True)
    meta["checks_run_quick"] = results
    meta["caught_by"] = [c for c, r in results.items() if r["exit"] == 1]
    dst = os.path.join(VERIF, "seeded", name)
    os.makedirs(dst, exist_ok=True)
    for fn in ("patch.diff", "demo.py", "notes.md"):
        if os.path.exists(os.path.join(seed, fn)):
            shutil.copy(os.path.join(seed, fn), os.path.join(dst, fn))
    meta["what_i_ran"] = ["git apply -R seed/patch.diff; python seed/demo.py (expect PASS); git apply seed/patch.diff; python seed/demo.py (expect FAIL)",
                          "pytest pinned suite with the change, compared with BASELINE.json stable_pass",
                          "check.py <ID> --tier quick with RNAPOLIS_REPO=<scratch worktree>"]
    json.dump(meta, open(os.path.join(dst, "meta.json"), "w"), indent=1)
    print("confirmed:", ok, "caught by:", meta["caught_by"])
    return 0


if __name__ == "__main__":
    sys.exit(main())
