#!/usr/bin/env python3
"""Runs every registered quick check against every seeded change; writes seeded/MATRIX.json"""
import json, os, re, subprocess, sys
VERIF = os.path.dirname(os.path.dirname(os.path.abspath(__file__)))
ids = [f"C{n:02d}" for n in range(1, 21)]
seeds = sorted(d for d in os.listdir(os.path.join(VERIF, "seeded")) if os.path.isdir(os.path.join(VERIF, "seeded", d)))
only = sys.argv[1:] or seeds
matrix = {}
mp = os.path.join(VERIF, "seeded", "MATRIX.json")
if os.path.exists(mp):
    matrix = json.load(open(mp))
for s in only:
    p = subprocess.run([sys.executable, os.path.join(VERIF, "tools", "mutant.py"), "--patch", os.path.join(VERIF, "seeded", s, "patch.diff"), "--"] + ids,
                       capture_output=True, text=True)
    row = {}
    for m in re.finditer(r"^(C\d\d): exit=(\d)", p.stdout, re.M):
        row[m.group(1)] = int(m.group(2))
    matrix[s] = {"caught_by": [c for c, rc in row.items() if rc == 1], "harness_error": [c for c, rc in row.items() if rc == 2]}
    print(s, matrix[s], flush=True)
    json.dump(matrix, open(mp, "w"), indent=1, sort_keys=True)
