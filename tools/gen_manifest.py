#!/usr/bin/env python3
"""Regenerates /verif/MANIFEST.json from the table below (kept in one place so
that the manifest is always valid and in step with the checks that exist)."""
import json
import os

VERIF = os.path.dirname(os.path.dirname(os.path.abspath(__file__)))

TRUST = ("Trusted base: CPython 3.12, NumPy, Hypothesis 6.168 and the harness's own reference code under "
         "/verif/rnaverif (independent of rnapolis). ")

CHECKS = {
    "C01": dict(
        technique="exhaustive enumeration of all pairings on <=N positions + Hypothesis-generated structures/strings against an independent reference decoder (round trip)",
        text="Generated-input search: every partial matching on up to 8 (quick) / 11 (thorough) positions is enumerated completely, and thousands of larger knotted structures, 30-level ladders and balanced 30-type strings are drawn by Hypothesis; each produced notation is decoded by an independent 30-stack decoder and compared both ways (lost / invented pairs). Exhaustive below the bound, sampling above it - no proof. Also every arrangement of 5 (thorough 6) one-pair stems, long structures of 30-120 stems (up to ~4000 nt), sequence alphabets with placeholder and lower-case letters, and the three from_file entry points.",
        note=TRUST + "Structures needing >30 levels are not generated. Exhaustive only for N<=8/11.",
        ref="3 C01"),
    "C02": dict(
        technique="exhaustive enumeration of pairings + Hypothesis structures against an independent exact optimiser (differential on scores)",
        text="Generated-input search: all pairings on <=8/11 positions and thousands of drawn multi-stem knotted structures (incl. path/star conflict graphs); the produced notation's level assignment is read back with an independent stem finder and compared with an exact branch-and-bound optimum by score (never by string), plus properness, greedy stability, >= FCFS and round-brackets-only for knot-free input. Also every arrangement of 5 (thorough 7) stems incl. unequal length patterns, ladders of up to 13 (thorough 20) mutually crossing stems (properness only above 10), long structures, the notations of the objects returned by without_isolated()/without_pseudoknots(), and convert_to_dot_bracket with scripted solvers that give up (proper and >= FCFS demanded).",
        note=TRUST + "Components above 10 stems are not checked for optimality. Only CBC is available as MILP back-end.",
        ref="3 C02"),
    "C03": dict(
        technique="corpus + Hypothesis-perturbed 3D structures against an independent O(n^2) three-valued geometric reference model (soundness, exclusivity, completeness)",
        text="Generated-input search: whole corpus structures, rigidly moved / jittered / thinned copies and thousands of mini-structures of neighbouring residues whose members are moved independently so that every threshold (4.0 A, 50/130 deg, +-90 deg torsion) is crossed; each reported pair is justified by the harness's own donor/acceptor/edge tables and geometry, edge slots are checked for exclusivity and every pair of residues with >=2 certain base-to-base contacts must be reported or blocked. Mini-structures are also relabelled (insertion-code runs, descending numbers, reversed chains) and stripped to base fragments; STEERED pairs put one donor-acceptor distance at 4.0 A, one normal angle at 50/130 deg or the glycosidic torsion at 90 deg +- 1e-5..0.1 by construction.",
        note=TRUST + "Residue identity and one-letter names come from the residue-level reader. Margins of 1e-6 around every threshold are undecided.",
        ref="3 C03"),
    "C04": dict(
        technique="corpus + Hypothesis-perturbed 3D structures against an independent all-pairs geometric definition of stacking (both directions, three-valued)",
        text="Generated-input search over the same 3D domains as C03; for all residue pairs the harness recomputes centroid distance, normal angle and offset angle with its own geometry and demands reported <=> defined (undecided within 1e-6), single report per pair, ordering and topology label family. STEERED two-residue placements put centroid distance, normal angle or offset angle at 6 A / 35 deg / 45 deg +- 1e-5..1 by construction (parallel and antiparallel, either residue moved).",
        note=TRUST + "Directed reading of the offset criterion (vector from the later to the earlier residue; normals (N7-N9)x(N3-N9) / (C4-N1)x(O2-N1)) as implemented by the anchored code; see DESIGN C04.",
        ref="3 C04"),
    "C08": dict(
        technique="Hypothesis atom tables serialised by independent PDB/mmCIF emitters (round trip through the reader) + corpus files decoded by an independent column slicer / CIF tokenizer (differential)",
        text="Generated-input search: generated multi-model / altloc / insertion-code / close-pair tables are written as PDB and as mmCIF (both null markers, optionally absent occupancies) and read with every model argument; corpus files (NMR ensembles, altloc files) are decoded independently. The returned residues and atoms must equal the expectation computed from the table: best-occupancy copy per name, one survivor of an isolated <0.5 A pair, file order, exact identities and coordinates, requested model only. mmCIF is also written with non-contiguous model rows and as dialects (optional items left out, item order permuted, author-only / label-only identity); tables contain modified-nucleotide names, 5-digit serials and positions modelled as two differently named residues.",
        note=TRUST + "Well-formed input only; occupancy ties and clash clusters of >=3 atoms are checked by validity predicates, not exact expectation.",
        ref="3 C08"),
    "C09": dict(
        technique="Hypothesis atom tables through independent emitters: reader fidelity + four write/read round trips compared field by field via a neutral accessor; written PDB text decoded by an independent column slicer and matched against a record grammar",
        text="Generated-input search: for each generated table (names with primes and leading digits, 1-2 letter / absent elements, charges, icodes, altlocs, negative values, several models and chains) the harness emits PDB and mmCIF itself, reads them with parse_*_atoms, runs PDB->PDB, mmCIF->mmCIF, PDB->mmCIF->PDB and mmCIF->PDB->mmCIF and compares all 16 logical fields and row order; every written PDB text must be 80-column, right-justified where the format says so, with MODEL/ENDMDL around every model and TER after every chain. mmCIF dialects (item order permuted, label_entity_id / auth_atom_id / auth_comp_id left out) are read and written too; the splitter command line is driven on generated files, also with atom ids that run on from model to model.",
        note=TRUST + "Only tables within PDB widths (the property's quantifier). Tolerance 5e-4 / 5e-3 on reals.",
        ref="3 C09"),
    "C10": dict(
        technique="Hypothesis atom tables pushed outside PDB limits + compact oversize constructions, against an independent feasibility decision and a renaming-invariant (functional, injective, order and field preserving) + write/read round trip",
        text="Generated-input search: generated mmCIF/PDB-derived tables with multi-character chains, numbers >9999, serials >99999, insertion codes and several models, plus 62/63/70 chains, 9999/10000 residues per chain and (thorough) 100000 atoms. Feasible => returned table preserves rows, order and all non-identity fields, satisfies the limits, renames chains/residues one-to-one and round-trips through write_pdb/parse_pdb_atoms; infeasible => ValueError only; fitting input => unchanged. Also sub-tables of a parsed table (mask / groupby), long ids on only some chains or only later models, ids / numbers exceeding a limit only in later models, an oversize chain whose residues share numbers (insertion codes), a near-limit table with chains in several runs (TER records counted per run), and the files written by `splitter -f PDB` and `unifier -f PDB`.",
        note=TRUST + "The grey zone between the two feasibility predicates (TER records counted per run vs per change of chain) is not judged.",
        ref="3 C10"),
    "C11": dict(
        technique="corpus + Hypothesis-perturbed and multi-model 3D structures against list invariants and an independent BPh/BR / Saenger reference; exhaustive (base, base, LW) grid for the Saenger lookup",
        text="Generated-input search: every interaction list of every analysed model is checked for repetition, self-interaction, membership in the analysed model, orientation and sort order; Saenger classes against a literal 28-class table (complete 7x7x18 grid, pair vs reverse); BPh/BR classes against the classes implied by base-donor atoms within 4.0 A in the analysed model's coordinates, one class per ordered pair.",
        note=TRUST + "Only soundness and uniqueness are claimed for BPh/BR. Multi-model structures are built by the harness (perturbed copies sharing identities).",
        ref="3 C11"),
    "C05": dict(
        technique="metamorphic testing: Hypothesis-drawn rigid motions, atom-order permutations, order-preserving relabellings and PDB-vs-mmCIF re-serialisation of corpus structures; equality of the complete annotation, margin-gated by the reference model",
        text="Generated-input search: each drawn transformation of a real structure must leave the whole result of extract_secondary_structure (all interaction kinds, BPSEQ, dot-bracket, extended dot-bracket, elements; with and without gap detection) unchanged up to the drawn renaming. A difference counts only when every decision quantity is farther than 1e-6 from its threshold (measured with the independent reference model). Sampling of motions - no proof of invariance. The PDB/mmCIF relation is also taken after axis rotations and translations that fill the PDB coordinate columns; renumbering also maps onto shared numbers with insertion codes under author-only identities.",
        note=TRUST + "Only transformations applied through unmodified code count. The PDB/mmCIF relation compares two harness-emitted files of the same atoms.",
        ref="3 C05"),
    "C06": dict(
        technique="corpus structures x Hypothesis-drawn pair lists (duplicates, reversed duplicates, conflicts, multiplets, dangling entries, gap detection on/off, both entry points) against a reference mapping and the independent dot-bracket decoder",
        text="Generated-input search: for each drawn list over a real structure's nucleotides the derived BPSEQ is checked for numbering, letters and gap placeholders, symmetry, one partner, canonical provenance and retention of conflict-free canonical pairs; per-strand dot-bracket text (optimal and every member of all_dot_brackets) must concatenate to that sequence and decode to exactly that matching; the extended rows must be balanced, full-length and encode each distinct input pair of each class exactly once. Structures are also relabelled: chains cut into pieces whose names may come back after another chain (A, B, A), number offsets, dropped residues.",
        note=TRUST + "Nucleotide classification and one-letter names come from the reader. A class is compared up to orientation (cWH == cHW seen from the other residue).",
        ref="3 C06"),
    "C07": dict(
        technique="exhaustive enumeration of pairings + Hypothesis structures against a reference decomposition (validity + coverage predicates)",
        text="Generated-input search over all pairings on <=8/11 positions and drawn structures up to ~150 nt; stems and hairpins are compared as sets with an independent decomposition, loops are checked by a validity predicate (closed cycle, paired ends, unpaired interiors), coverage of every unpaired nucleotide exactly once, and every strand's text against slices. Also every arrangement of 5 (thorough 6) one-pair stems (spaced and dense), ladders of 2-8 (10) mutually crossing stems of 1-4 pairs (letter brackets), and long structures up to ~3000 nt.",
        note=TRUST + "Interior of a strand is defined as its positions other than its paired end nucleotides.",
        ref="3 C07"),
    "C12": dict(
        technique="Hypothesis rule-based state machine: every call history compared step by step with fresh objects + snapshot invariant",
        text="Stateful generated search: call sequences (<=6 quick / <=10 thorough) over the nine public queries/derivations on a source structure and on objects derived from it; after every step the answer must equal that of a fresh object and every live object must still equal its snapshot; removal semantics come from an independent stem finder / decoder. A further rule adds a relettered twin (same pairing, other letters) as an independent live object, and convert_to_dot_bracket(CBC) is one of the calls.",
        note=TRUST + "History length is bounded; solver ties (equal score, lossless) would be tolerated for dot_bracket only.",
        ref="3 C12"),
    "C13": dict(
        level="fault_enumeration",
        technique="fault injection at the PuLP API boundary: complete configuration x behaviour grid per generated structure + drawn fault sequences, against the lossless/FCFS/optimal oracles",
        text="For each generated knotted structure the 15-cell grid (plus 21 cells with both back-ends present) {HiGHS selected, CBC selected} x {ok, ok with near-integral variable values, raises PulpSolverError, NotSolved, Infeasible, Unbounded, Undefined} + {no solver} is enumerated completely through both entry points, then a drawn 1-4 step fault sequence runs on one shared solver object. Faults are injected by replacing pulp.HiGHS_CMD / pulp.LpSolverDefault from the harness.",
        note=TRUST + "HiGHS itself is absent from the sandbox: the 'HiGHS selected' cell is a scripted stand-in, so the selection/fallback logic is exercised, not HiGHS. Only the listed fault behaviours are injected.",
        ref="3 C13"),
    "C14": dict(
        technique="metamorphic differential across fresh interpreters with different PYTHONHASHSEED values and repeated in-process calls (SHA-256 of every output artefact)",
        text="Generated-input search over configurations: each corpus file and each Hypothesis-drawn multi-component knotted structure is processed in a fresh interpreter per sampled hash seed, twice per interpreter; digests of all output artefacts (interaction lists, JSON, CSV, BPSEQ, dot-bracket, extended, ordered all-dot-brackets, elements, CLI output, written PDB/mmCIF) must coincide. Sampling of hash seeds - no proof of seed independence. Further input families: corpus structures re-emitted with non-standard, thinned residues (name guessing and its ties), drawn pair lists mapped onto structures, and sibling inputs (one molecule, two coordinate sets) processed in one interpreter in both orders; the stdout of clashfinder / motif_extractor and the files of splitter are among the artefacts.",
        note=TRUST + "4 (quick) / 8 (thorough) hash seeds are sampled; the 'random' seed is replaced by a VERIF_SEED-derived value to keep runs reproducible.",
        ref="3 C14"),
    "C17": dict(
        technique="corpus + Hypothesis residue sets with planted near-threshold contacts, all 32 option combinations enumerated per structure, against an all-pairs reference; CLI report and CSV parsed and cross-checked",
        text="Generated-input search over inputs and exhaustive over configurations: for every structure all 32 option sets are evaluated and the listed pairs compared both ways with a brute-force enumeration (typed radii, +0.5 A MolProbity margin, filters, occupancy rule, each pair once, occupancy sums). The command-line tool is run on harness-written mmCIF files; its per-residue and per-chain maxima, atom lines and CSV rows are parsed and must agree with each other and with the definition. Generated residues may share a position (two differently named residues at one chain/number), planted contacts sit at the vdW sum +- 1e-4..0.6.",
        note=TRUST + "Residue3D.is_nucleotide is taken as the definition of 'nucleic acid'. Distances within 1e-6 of the limit are undecided.",
        ref="3 C17"),
    "C18": dict(
        technique="constructive generator (points built from a prescribed dihedral) + metamorphic relations (reversal, mirror, rigid motion) + differential v1 vs v2 + corpus torsions against an independent projection formula",
        text="Generated-input search: ~17k (quick) / ~1M (thorough) quadruples built in internal coordinates so that the IUPAC dihedral is known by construction, then rigidly moved; both implementations, the Atom wrapper, Residue3D.chi/chi_class and the tertiary_v2 torsion table (corpus files) are compared with the prescribed value / an independent formula. The v2 sign inversion is a recorded known finding (exact signature); everything else about v2 and all of v1 is checked without exclusion. Every cell of the tertiary_v2 torsion table is checked for definedness (a number where a defining atom is missing is a wrong value), chi of modified residues in the table against the nitrogen actually bonded to C1', and Residue3D.chi under lower-case / N / ? / X one-letter names.",
        note=TRUST + "Bond angles 20-160 deg, lengths 0.8-2.5 A as the quantifier states; tolerance 1e-7 rad; chi_class is checked only in the uncontroversial anti / syn regions.",
        ref="3 C18"),
    "C15": dict(
        technique="differential testing: generated atom tables serialised by independent emitters in both formats and read by both reader generations (4 readings) + single-conformer corpus files; keyed comparison, connectivity and |chi| against harness geometry",
        text="Generated-input search: each generated altloc-free table (with P atoms planted at 1.6-3.0 A from the previous O3', on both sides of 2.4 A) is written as PDB and mmCIF and read by the residue-level and the table-level reader; residue keys, names, atom multisets and coordinates must agree among the four readings and with the table, is_connected of both object models with the harness's distance test, connected segments with the implied segmentation, and |chi| between the two torsion implementations and the two formats. Tables also contain complete nucleotides under modified / force-field names, and the mmCIF side is also written as a dialect (optional items left out, item order permuted, author-only or label-only identity).",
        note=TRUST + "Tables avoid atoms closer than 0.6 A (the 0.5 A clash filter of the residue-level reader is C08's subject). Residue order is not compared.",
        ref="3 C15"),
    "C16": dict(
        technique="exhaustive enumeration of pairings + Hypothesis structures against an independent enumeration of greedy-stable colourings (set equality)",
        text="Generated-input search: for all pairings on <=8/11 positions and drawn structures with components of <=6/8 stems, the produced list is compared as a set of per-stem level vectors with the product of all Grundy (greedy-stable) proper colourings computed without permutations; also no repetition, contains optimal and FCFS, singleton for knot-free. Also every arrangement of 5-6 (thorough 7) one-pair stems, chains and stars of 7-8 (9) stems, every four-stem pattern repeated twice (three times) with 0-8 hairpins in between, and the 3D entry point Mapping2D3D.all_dot_brackets over relabelled corpus structures.",
        note=TRUST + "Components above 8 stems are outside the property's quantifier and are not generated.",
        ref="3 C16"),
    "C19": dict(
        technique="exhaustive enumeration of all labels up to length 5/6 over the FR3D alphabet against a three-valued reference classifier + Hypothesis-generated listings and DSSR documents against a line-by-line / entry-by-entry reference import + atheris (libFuzzer) coverage-guided fuzzing of the listing import with the oracle inside the target",
        text="Generated-input search: the label space over the 19-symbol FR3D alphabet is enumerated completely up to length 5 (2.6M, quick) or 6 (49M, thorough) and every classification compared with a reference written from the statement (open cases accept either reading); generated listings mix valid lines, near misses and garbage and must import without raising, one interaction per line with two well-formed unit ids, exact identities, correct list and class, file order; generated single-/multi-model DSSR documents must keep exactly the resolvable valid pairs and consecutive resolvable stack members. Listings also carry separator-like and non-ASCII characters inside fields; every DSSR case runs on its own short-lived structure object; adapter.main is driven on corpus structures with generated listings and its JSON compared with the listing oracle.",
        note=TRUST + "Python-int leniency in unit-id numbers is kept out of the generator. The atheris tier (empty and seeded corpus) needs the atheris wheel installed by setup.sh into /verif/.deps; if absent the tier is skipped with a note.",
        ref="3 C19"),
    "C20": dict(
        technique="Hypothesis mmCIF documents written by the harness + corpus files, before/after comparison through an independent CIF tokenizer; CLI run in-process and compared byte-wise with the library result",
        text="Generated-input search: for generated multi-category documents (quoted, multi-word, text-block and null values) and real files, copy/replace operations on present, absent and new items must change exactly the target column, keep every other category, item, row and row order, return the first-seen injective mapping, leave the text byte-identical when the category or source item is absent, and the command-line tool must write exactly the library's result. Documents may have several data blocks (the edited category may recur in another block) and the tool is also run in place (output path = input path).",
        note=TRUST + "Documents are pre-filtered by a plain IoAdapterPy read/write self-check so that limitations of the mmcif package are not blamed on rnapolis. Alphabets have distinct characters and suffice for the number of distinct values.",
        ref="3 C20"),
}

PENDING_REASON = "check not built yet in this revision of /verif (planned in DESIGN.md section 3); not claimed until it runs quiet on the unchanged tree"


# widening of the seventh seeding round (see DESIGN 9.2), appended to the level texts
EXTRA = {
    "C16": " One of seven histories (fcfs / dot_bracket / elements asked first) precedes all_dot_brackets. After the 3D list of a mapping was read (twice), BpSeq.all_dot_brackets of the same mapping must still be the complete set with the optimal and FCFS notations.",
    "C02": " Knots around 130-400 inserted hairpins (crossing stems hundreds of stems apart) are judged for six length patterns and every gap. dot_bracket (default solver) and convert_to_dot_bracket (fresh CBC) must agree in score on every input, including random chord arrangements of 10-16 short stems that no reference optimum is computed for. 'No stem could be moved to a lower level' is judged on every input; star structures (one stem crossing 28-36 others) included. Half of the unequal-length chord-diagram shards judge every request after a failed call (PulpSolverError) of a same-named solver in the same process.",
    "C10": " A pandas copy of a table that was just asked about is edited (chain renamed / numbers above 9999) and judged as a table of its own; the largest serial / number is also placed exactly on and just above the limits. Tables within the limits may carry a five-character component id or atom name. Ensembles of 2-200 models of three two-letter chains, and two models of 31-63 chains, are handed over whole. Positions modelled as two differently named residues are drawn.",
    "C01": " Chains of 8-10 kissing helices (one group of crossing stems, k! stem orders): every listed notation is decoded. The pseudoknot-free notation derived from a used and from a fresh DotBracket must convert to exactly the round-bracket pairs. convert_to_dot_bracket with nine scripted solvers that stop without an optimum or raise is among the encoders.",
    "C03": " Mini-structures carry drawn occupancies and uridines relettered to thymidines; steered placements include the BPh/BR torsion boundary. Crowded placements (perturbed copies as chains of one model) are judged too. Multi-model structures (model numbers 1..k, from 0, 300+, up to 2000) are annotated model by model. Moved corpus structures are also handed over with label-only (auth None) or author-only identities.",
    "C19": " Multi-model DSSR documents number their models 1..n or otherwise (1-3-4, 0-1-2, 3-1-2); the request names a model by its number. A line may repeat the first column of the line before it. DSSR documents are also imported through process_external_tool_output on structures of other model numbers. Drawn listings are repeated to hundreds or thousands of lines in 3 of 16 draws. Two shards (thorough eight) judge listings of 30 000-80 000 lines (1-4 MiB).",
    "C15": " An mmCIF dialect whose label_seq_id repeats the author number is drawn, and insertion-code neighbours repeat a residue name half of the time. Flat models (every atom in one axis-aligned plane) are drawn too. The single model carries a drawn number (1, 2, 0, 7). One table in six carries its atom names in the pre-2007 spelling (O5*, C1*). The mmCIF dialect may spell numbers with exponents or further zeros.",
    "C08": " An mmCIF dialect whose label_seq_id repeats the author number is drawn too. Clash triples on a line are planted too. The mmCIF dialect may spell numbers with decimal exponents, explicit plus signs or further zeros.",
    "C05": " The PDB-vs-mmCIF relation is also composed with a constant offset of the author numbers (negative numbers in both formats). The format relation is also run on the molecule as one requested model of a 2-3 model ensemble with drawn model numbers. First serials 9001 / 90000 and HETATM records are drawn. Residues deposited three times over under separate identities are written with their atoms as listed / reversed / rotated. Drawn purines are thinned to the border of what counts as a nucleotide before the relations are applied. Every base-base contact of a file in turn is made exactly normal to a coordinate axis on the 0.001 A grid and the annotation of that input compared with a generically moved copy of itself. Drawn uridines become 4-thiouridines announced by MODRES records in the PDB text (same atoms in the mmCIF).",
    "C04": " CROWDED placements (2-16 perturbed copies of a run of 1-3 bases as chains of one model; a base has up to ~40 centroids within 6 A) are judged by the same all-pairs definition. Mini-structures carry drawn occupancies (0.00 / 0.5 / absent) and uridines relettered to thymidines. An assembly of 12-20 translated copies (3 700+ residues) is judged pair by pair. Multi-model structures, structures pulled apart to 5.5-5.99 A between two stacked residues and four-column placements around a gap inside 6 A are judged too. Moved corpus structures are also handed over with label-only (auth None) or author-only identities.",
    "C06": " Generated pair lists name residues by one drawn convention: as the structure does, by author identity only, by label only, by both with a label the structure does not have, or as Residue3D objects of another structure object. Own annotation is also run over structures some of whose bases have no backbone (paired residues without a BPSEQ line). Drawn residues (and every ninth residue in own annotation) become abasic sites with the letter '?'. A pair may be listed a second time with the other Saenger setting; its count in the extended rows is then judged three-valued.",
    "C07": " Before the elements are asked one of 9 histories of read-only queries (paired() iterated partly / fully, text, fcfs, dot_bracket) runs on the same object. After the first answer one of 7 histories of later queries (explicit conversion without / with a solver, fcfs, removals) runs and elements and dot-bracket are read again together. Both removals are among the queries run before the elements are first asked. .dbn inputs come in three notations; every printed strand must be a slice of the printed sequence and dot-bracket.",
    "C09": " Model numbers are drawn too (ascending, 3-1-2, 7-2-5, 10-20-30, 0-1-2), for tables and splitter inputs. Tables of 10 000-33 000 atoms per model run through the same round trips. Positions modelled as two differently named residues are drawn. The buffer a writer just filled is handed straight to the reader. Ensembles of 2 x 27 000 (thorough also 4 x 24 990, 2 x 70 000) atoms, whose PDB text exceeds 50 000 lines, run through the same round trips. The mmCIF dialect may spell numbers with exponents, plus signs or further zeros.",
    "C11": " Mini-structures may carry a residue as two non-adjacent record blocks of one identity (the reference model merges them; self-contact, membership, order and class soundness are judged on identities). Chains may be named B7 / B10 or 9 / 10. Docked placements with exactly two exclusive contacts of merging classes (3+5, 7+9; base-ribose and base-phosphate, either listing order) must carry the merged class 4 / 8. Moved corpus structures are also handed over with label-only (auth None) or author-only identities.",
    "C12": " Every returned dot-bracket is read completely (letters, brackets and the pairs it decodes itself to). The structure may sit behind a 260-300 nucleotide unpaired tail. convert_to_dot_bracket(None) is among the drawn calls.",
    "C13": " The scripted solver is request-aware: the first and the later solver calls of one request behave as scripted, the verdict per request is ok / fault / mixed (mixed: FCFS or an optimal notation), on structures repeated 1-3 times along the strand. Star structures (one stem crossing 28-36 others) run through the same grid. Ladders of 10-21 mutually crossing stems run through the grid as well. After the grid a twin molecule (same stems, other letters, longer tail) asks; its notation must be its own. Every eighth shard of this and every other check runs in a child interpreter started with -O.",
    "C14": " Structures with 1024-8192 admissible notations are among the inputs. mmCIF variants with multi-character chain names, write_pdb(fit_to_pdb(table)) and the splitter's PDB output are among the artefacts. mmCIF variants may leave optional atom_site items out. Variants may restart the numbering inside a chain. The annotator's stem tables (--stems-csv, --inter-stem-csv) are among the artefacts. The JSON of one result object is written before and after its stems were used. One conflict group of nine mutually crossing stems (362 880 orderings) is compared across interpreters. Not reached: results that depend on how long the external solver ran (the check owns hash seeds and processing order, not the clock).",
    "C17": " API-built residues may hold two atoms of one name. Assemblies of 8-20 translated copies of a corpus structure (53 000-90 000 atoms) are checked against the same enumeration. Files written for the tool may carry entity tables and a nucleotide ligand of a non-polymer entity. Residues may carry two different model numbers. Atom names may be longer than four characters. 8-20 displaced conformers of 2-4 residues pooled in one residue list (dozens of atoms within the search radius of one atom) are checked too. Ligand phosphorus names (PA, PB, PG, P1, PC) are in the atom-name pool.",
    "C18": " Integer lattice points handed over as int64 / int32 / float64 arrays are judged with degeneracy decided exactly on the integers. The Atom entry point is asked forward, reversed, again and reversed-first. PDB corpus files renumbered onto insertion-code runs are run through the table check; a standard nucleotide with all four defining atoms must have its chi in the table. A row selection of the parsed table (non-default index) is run through the table check as well. 5' / 3' neighbours are the residues bonded on that side by the coordinates; chains numbered 3'->5' are run. PDB corpus files whose bases are slid along their glycosidic bonds to 0.85-2.45 A run through both implementations. Corpus files with single inner backbone atoms left out must show no value for the torsions defined over them.",
    "C20": " Substitution alphabets shorter than the number of distinct values are drawn: a refusal is accepted, an answer only if it is an injective first-seen mapping that is returned and applied. Item names are laid out in column 0, indented, after a tab or on the loop_ line. Multi-line text values include lines ending in blanks. Values differing only by blanks at their edges are in the value pool. Category names with capital letters (pdbx_SG_project) are in the pool.",
}


def main():
    props = [json.loads(l) for l in open(os.path.join(VERIF, "properties.jsonl"))]
    checks = []
    na = []
    for p in props:
        pid = p["id"]
        c = CHECKS.get(pid)
        if c is None:
            na.append({"property_id": pid, "reason": PENDING_REASON})
            continue
        level = c.get("level", "exploration")
        checks.append({
            "property_id": pid,
            "quick_cmd": f"./check.py {pid} --tier quick",
            "thorough_cmd": f"./check.py {pid} --tier thorough",
            "evidence_file": f"/verif/evidence/{pid}.json",
            "replay_cmd_template": f"./check.py {pid} --replay {{path}}",
            "engine": "rnaverif",
            "level_claimed": {"category": level, "text": c["text"] + EXTRA.get(pid, ""), "design_ref": "DESIGN.md section " + c["ref"]},
            "level_note": c["note"],
            "technique": c["technique"],
        })
    manifest = {
        "version": 1,
        "setup_cmd": "sh /verif/setup.sh",
        "hooks": {
            "guard": "RNAPOLIS_VERIF",
            "enable": "no source hooks exist: checks import /repo/src directly (PYTHONPATH=/repo/src) and inject solver faults / hash seeds / CLI arguments from the harness process; RNAPOLIS_VERIF is reserved and unused",
            "baseline_off_cmd": "cd /repo && /venv/bin/python -m pytest -ra -q -p no:cacheprovider --timeout=900 --continue-on-collection-errors",
            "source_commits": [],
            "add_only": True,
        },
        "engines": [{
            "name": "rnaverif",
            "path": "/verif/rnaverif",
            "serves_properties": [c["property_id"] for c in checks],
            "kind_free_text": "property-based testing harness: Hypothesis strategies + exhaustive enumerators, independent reference models, sharded over 16 processes; check.py <ID> --tier quick|thorough [--replay file]",
        }],
        "checks": checks,
        "notes": "All checks are generated-input search against explicit oracles (see DESIGN.md). known_findings.json lists genuine defects recorded or fixed; regressions/ holds shrunk inputs of fixed defects that are replayed first in every run.",
        "not_applicable": na,
    }
    with open(os.path.join(VERIF, "MANIFEST.json"), "w") as f:
        json.dump(manifest, f, indent=1)
        f.write("\n")
    print(f"{len(checks)} checks, {len(na)} not claimed")


if __name__ == "__main__":
    main()
