#!/usr/bin/env python3
"""Prepares one scratch worktree per property for a seeding round: /tmp/wt_CNN with seed/TASK.md (tools/seed_prompt.txt),
seed/property.json (the property's text only) and seed/earlier_attempts.txt (what earlier seeds changed and needed).
usage: seed_setup.py [C01 C02 ...]   (default: all twenty).  Nothing from /verif beyond those three texts is copied."""
import glob
import json
import os
import subprocess
import sys

VERIF = os.path.dirname(os.path.dirname(os.path.abspath(__file__)))
props = {json.loads(l)["id"]: json.loads(l) for l in open(os.path.join(VERIF, "properties.jsonl"))}
ids = sys.argv[1:] or sorted(props)
prompt = open(os.path.join(VERIF, "tools", "seed_prompt.txt")).read()
for pid in ids:
    wt = f"/tmp/wt_{pid}"
    subprocess.run(["git", "-C", "/repo", "worktree", "remove", "--force", wt], capture_output=True)
    subprocess.run(["git", "-C", "/repo", "worktree", "prune"], capture_output=True)
    subprocess.run(["git", "-C", "/repo", "worktree", "add", "--detach", wt, "HEAD"], check=True, capture_output=True)
    os.makedirs(os.path.join(wt, "seed"), exist_ok=True)
    open(os.path.join(wt, "seed", "TASK.md"), "w").write(prompt.replace("CXX", pid))
    p = props[pid]
    json.dump({k: p[k] for k in ("id", "title", "statement", "quantifier", "why_tests_cant", "anchors")}, open(os.path.join(wt, "seed", "property.json"), "w"), indent=1)
    lines = []
    for d in sorted(glob.glob(os.path.join(VERIF, "seeded", pid + "*"))):
        mp = os.path.join(d, "meta.json")
        if not os.path.exists(mp):
            continue
        m = json.load(open(mp))
        if m.get("breaks_property", m.get("property")) != pid:
            continue
        lines.append(f"- {m.get('change', '(see patch)')}  [needed: {m.get('needs_to_manifest', '?')}]")
    open(os.path.join(wt, "seed", "earlier_attempts.txt"), "w").write(
        "Changes already used by earlier attempts (code site / mechanism, and what each needed to manifest):\n" + "\n".join(lines) + "\n")
    print(pid, wt, len(lines), "earlier attempts")
