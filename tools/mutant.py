#!/usr/bin/env python3
"""Sensitivity helper: apply a textual mutation to a scratch copy of /repo/src
(outside /repo and /verif), run checks against it, remove the copy.

usage: mutant.py FILE OLD NEW [--count N] -- C01 C02 ...   (quick tier)
       mutant.py --patch some.diff -- C01
Prints, per check, exit code and VIOLATION signatures.  Evidence files and
replays written during the run are restored afterwards (git checkout / clean).
"""
import argparse
import os
import shutil
import subprocess
import sys
import tempfile

VERIF = os.path.dirname(os.path.dirname(os.path.abspath(__file__)))


def main():
    ap = argparse.ArgumentParser()
    ap.add_argument("file", nargs="?")
    ap.add_argument("old", nargs="?")
    ap.add_argument("new", nargs="?")
    ap.add_argument("--patch")
    ap.add_argument("--count", type=int, default=1)
    ap.add_argument("--tier", default="quick")
    ap.add_argument("--seed", default="1")
    ap.add_argument("checks", nargs="*")
    args, rest = ap.parse_known_args()
    checks = [c for c in args.checks + rest if c != "--"]
    if args.patch:
        checks = [c for c in (args.file, args.old, args.new) if c] + checks
    scratch = tempfile.mkdtemp(prefix="rnamut_")
    try:
        shutil.copytree("/repo/src", os.path.join(scratch, "src"))
        os.symlink("/repo/tests", os.path.join(scratch, "tests"))
        if args.patch:
            subprocess.run(["patch", "-p1", "-d", scratch, "-i", os.path.abspath(args.patch)], check=True)
        else:
            path = os.path.join(scratch, "src", "rnapolis", args.file)
            text = open(path).read()
            if text.count(args.old) < 1:
                print(f"MUTANT-ERROR: pattern not found in {args.file}: {args.old!r}")
                return 3
            if text.count(args.old) != args.count:
                print(f"MUTANT-ERROR: pattern occurs {text.count(args.old)} times, expected {args.count}")
                return 3
            open(path, "w").write(text.replace(args.old, args.new))
        env = dict(os.environ, RNAPOLIS_REPO=scratch, VERIF_SEED=args.seed, VERIF_EVIDENCE_DIR=os.path.join(scratch, "evidence"),
                   VERIF_REPLAY_DIR=os.path.join(scratch, "replays"))
        worst = 0
        for c in checks:
            p = subprocess.run([os.path.join(VERIF, "check.py"), c, "--tier", args.tier], env=env,
                               capture_output=True, text=True)
            lines = [l for l in p.stdout.splitlines() if l.startswith(("VIOLATION", "  C", "HARNESS", "KNOWN"))]
            print(f"{c}: exit={p.returncode}")
            for l in lines[:8]:
                print("   ", l[:300])
            if p.returncode == 2:
                print(p.stdout[-1500:], p.stderr[-1500:])
            worst = max(worst, p.returncode)
        return 0
    finally:
        shutil.rmtree(scratch, ignore_errors=True)


if __name__ == "__main__":
    sys.exit(main())
