#!/usr/bin/env python3
"""Mutation sweep (sensitivity at scale): generates first-order mutants of the rnapolis source files with a small set of
AST operators, runs the quick checks anchored in the mutated file against each mutant (in a scratch copy outside /repo
and /verif, stopping at the first check that reports a violation) and records which mutants SURVIVE every check.
Survivors are triaged by hand: equivalent mutant / outside every listed property / a blind spot of a generator.

usage: mutation_sweep.py [--per-file N] [--seed S] [--files a.py,b.py] [--out FILE] [--suite-on-survivors]
The RNG below only chooses WHICH mutants to run; it is tooling, not part of any property check.
"""
import argparse
import ast
import copy
import json
import os
import random
import shutil
import subprocess
import sys
import tempfile
import time

VERIF = os.path.dirname(os.path.dirname(os.path.abspath(__file__)))
REPO = os.environ.get("RNAPOLIS_REPO", "/repo")

FILE_CHECKS = {
    "annotator.py": ["C03", "C04", "C11", "C05", "C14"],
    "common.py": ["C01", "C02", "C07", "C16", "C12", "C13", "C11"],
    "tertiary.py": ["C06", "C18", "C03", "C04", "C16", "C14"],
    "tertiary_v2.py": ["C15", "C18"],
    "parser.py": ["C08", "C15", "C05"],
    "parser_v2.py": ["C09", "C10", "C15"],
    "adapter.py": ["C19", "C06"],
    "clashfinder.py": ["C17"],
    "transformer.py": ["C20"],
    "splitter.py": ["C09", "C10"],
    "unifier.py": ["C10"],
    "motif_extractor.py": ["C07"],
}

CMP = {ast.Lt: ast.LtE, ast.LtE: ast.Lt, ast.Gt: ast.GtE, ast.GtE: ast.Gt, ast.Eq: ast.NotEq, ast.NotEq: ast.Eq,
       ast.Is: ast.IsNot, ast.IsNot: ast.Is, ast.In: ast.NotIn, ast.NotIn: ast.In}
BIN = {ast.Add: ast.Sub, ast.Sub: ast.Add, ast.Mult: ast.Div, ast.Div: ast.Mult, ast.FloorDiv: ast.Mult, ast.Mod: ast.Mult}
BOOL = {ast.And: ast.Or, ast.Or: ast.And}


def sites(tree):
    """(kind, node index in ast.walk order, description) for every mutable site"""
    out = []
    for idx, node in enumerate(ast.walk(tree)):
        ln = getattr(node, "lineno", 0)
        if isinstance(node, ast.Compare):
            for k, op in enumerate(node.ops):
                if type(op) in CMP:
                    out.append(("cmp", idx, k, ln))
        elif isinstance(node, ast.BinOp) and type(node.op) in BIN:
            out.append(("bin", idx, 0, ln))
        elif isinstance(node, ast.BoolOp) and type(node.op) in BOOL:
            out.append(("bool", idx, 0, ln))
        elif isinstance(node, ast.UnaryOp) and isinstance(node.op, ast.Not):
            out.append(("not", idx, 0, ln))
        elif isinstance(node, ast.Constant) and isinstance(node.value, bool):
            out.append(("flip", idx, 0, ln))
        elif isinstance(node, ast.Constant) and isinstance(node.value, int) and not isinstance(node.value, bool):
            out.append(("int+1", idx, 0, ln))
            if node.value != 0:
                out.append(("int-1", idx, 0, ln))
        elif isinstance(node, ast.Constant) and isinstance(node.value, float):
            out.append(("float*1.01", idx, 0, ln))
        elif isinstance(node, (ast.Continue, ast.Break)):
            out.append(("pass", idx, 0, ln))
        elif isinstance(node, ast.If) and not node.orelse:
            out.append(("if-true", idx, 0, ln))
        elif isinstance(node, ast.Subscript) and isinstance(node.slice, ast.Constant) and isinstance(node.slice.value, int):
            pass  # covered by int+1 / int-1 on the constant
    return out


def apply(tree, site):
    kind, idx, k, _ = site
    tree = copy.deepcopy(tree)
    node = list(ast.walk(tree))[idx]
    if kind == "cmp":
        node.ops[k] = CMP[type(node.ops[k])]()
    elif kind == "bin":
        node.op = BIN[type(node.op)]()
    elif kind == "bool":
        node.op = BOOL[type(node.op)]()
    elif kind == "not":
        # replace `not x` by `x`: find parent is awkward; mutate in place into a double negation-free form
        node.op = ast.UAdd() if False else node.op
        node.operand = ast.UnaryOp(op=ast.Not(), operand=node.operand)
    elif kind == "flip":
        node.value = not node.value
    elif kind == "int+1":
        node.value = node.value + 1
    elif kind == "int-1":
        node.value = node.value - 1
    elif kind == "float*1.01":
        node.value = node.value * 1.01 if node.value != 0 else 0.01
    elif kind == "pass":
        node.__class__ = ast.Pass
    elif kind == "if-true":
        node.test = ast.Constant(value=True)
    return ast.fix_missing_locations(tree)


def run_checks(scratch, checks, seed="1"):
    env = dict(os.environ, RNAPOLIS_REPO=scratch, VERIF_SEED=seed, VERIF_EVIDENCE_DIR=os.path.join(scratch, "evidence"),
               VERIF_REPLAY_DIR=os.path.join(scratch, "replays"), LOGLEVEL="CRITICAL")
    for c in checks:
        p = subprocess.run([os.path.join(VERIF, "check.py"), c, "--tier", "quick"], env=env, capture_output=True, text=True)
        if p.returncode == 1:
            sig = [l.strip() for l in p.stdout.splitlines() if l.startswith("  C")]
            return c, (sig[0][:160] if sig else "violation")
        if p.returncode not in (0, 1):
            return c + ":harness", (p.stdout + p.stderr)[-300:].replace("\n", " | ")
    return None, None


def main():
    ap = argparse.ArgumentParser()
    ap.add_argument("--per-file", type=int, default=40)
    ap.add_argument("--seed", type=int, default=1)
    ap.add_argument("--files", default=",".join(FILE_CHECKS))
    ap.add_argument("--out", default=os.path.join(VERIF, "mutation_sweep.jsonl"))
    a = ap.parse_args()
    rng = random.Random(a.seed)
    scratch = tempfile.mkdtemp(prefix="rnasweep_")
    try:
        shutil.copytree(os.path.join(REPO, "src"), os.path.join(scratch, "src"))
        os.symlink(os.path.join(REPO, "tests"), os.path.join(scratch, "tests"))
        with open(a.out, "a") as log:
            for fn in a.files.split(","):
                path = os.path.join(scratch, "src", "rnapolis", fn)
                original = open(path).read()
                tree = ast.parse(original)
                ss = sites(tree)
                rng.shuffle(ss)
                for site in ss[: a.per_file]:
                    try:
                        text = ast.unparse(apply(tree, site))
                        compile(text, fn, "exec")
                    except Exception as e:  # mutant does not compile: not a realistic change
                        continue
                    if text == ast.unparse(tree):
                        continue
                    open(path, "w").write(text)
                    t0 = time.time()
                    killer, what = run_checks(scratch, FILE_CHECKS[fn])
                    rec = {"file": fn, "kind": site[0], "line": site[3], "killed_by": killer, "what": what,
                           "source_line": original.splitlines()[site[3] - 1].strip()[:160] if site[3] else "", "s": round(time.time() - t0, 1)}
                    log.write(json.dumps(rec) + "\n")
                    log.flush()
                    print(("KILLED  " if killer else "SURVIVED"), fn, site[0], site[3], killer or "", flush=True)
                open(path, "w").write(original)
    finally:
        shutil.rmtree(scratch, ignore_errors=True)
    return 0


if __name__ == "__main__":
    sys.exit(main())
